"""prints a markdown table of /verif/seeded/*/meta.json"""
import glob, json, os
rows = []
for p in sorted(glob.glob('/verif/seeded/*/meta.json')):
    m = json.load(open(p))
    r = m['result']
    notes = (m.get('needs_to_manifest') or '').strip().splitlines()
    first = next((l.strip('# ').strip() for l in notes if l.strip() and not l.startswith('#')), '')
    det = ', '.join('%s %s%s' % (k.split(':')[0], v.get('tier', ''), '' if v['detected'] else ' MISSED') for k, v in sorted(r['checks'].items()))
    ok = r.get('tests_pass') and r.get('demo_fails_with_change') and r.get('demo_passes_without')
    rows.append('| %s | %s | %s | %s | %s |' % (r['name'], m['breaks_property'], 'yes' if ok else 'NO', det, first[:160].replace('|', '/')))
print('| seeded change | property | confirmed (tests pass, demo fails with / passes without) | checks run -> detected | what it is (first line of the author\'s notes) |')
print('|---|---|---|---|---|')
print('\n'.join(rows))
