#!/bin/bash
# usage: tools_sweep.sh [tier] [seeds...] : runs every check for the given seeds, prints one line per run
cd "$(dirname "$0")"
TIER=${1:-quick}; shift
SEEDS=${@:-0 1 2 3}
for id in $(/venv/bin/python -c "import json;print(' '.join(c['property_id'] for c in json.load(open('MANIFEST.json'))['checks']))"); do
  for s in $SEEDS; do
    out=$(VERIF_SEED=$s /venv/bin/python -m mc.run $id --tier $TIER 2>&1); rc=$?
    echo "seed=$s rc=$rc $(echo "$out" | grep -E "^$id $TIER" | tail -1)"
    if [ $rc -ne 0 ]; then echo "$out" | grep -v conda | grep -E "VIOLATION|HARNESS|key=" | head -6; fi
  done
done
