"""Parameter menus of the mechanism checks (C05, C06)."""
import itertools

QUICK_ALTS = ['pattern', '-10all', '+10first']
FULL_ALTS = ['pattern', 'zero', '+10all', '-10all', '+10first', '-10first']
PAIRS = [('A', 'B'), ('A', 'C'), ('B', 'C')]


def bounds(tier):
    if tier == 'quick':
        return {'domain': '(A,B,C) sizes (2,2,2)', 'deviations': 1, 'noise_answers': QUICK_ALTS, 'datasets': ['conc6', 'spread20'],
                'eps_delta': [[1.0, 1e-6], [10.0, 1e-3]], 'tiny_eps_delta': [[0.0008, 1e-9], [0.0012, 1e-6], [0.0015, 1e-6]], 'aim_default_rounds': 'default execution only'}
    return {'domain': '(A,B,C) sizes (2,3,2)', 'deviations': 2, 'noise_answers': FULL_ALTS, 'datasets': ['conc6', 'spread20', 'single'],
            'eps_delta': [[1.0, 1e-6], [0.1, 1e-9], [10.0, 1e-3]], 'tiny_eps_delta': [[0.0008, 1e-9], [0.0012, 1e-6], [0.0015, 1e-6]], 'caps': 'per (spec, dataset): 150 (AIM, MWEM) / 120 (MST, adaptive grid) base executions; 40 for the 4x4x4 AIM spec, 10 for the 7-attribute adaptive grid'}


def specs(tier):
    ed = [(1.0, 1e-6), (10.0, 1e-3)] if tier == 'quick' else [(1.0, 1e-6), (0.1, 1e-9), (10.0, 1e-3)]
    out = []
    for eps, delta in ed:
        out.append({'mech': 'mst', 'eps': eps, 'delta': delta})
        for rounds in [1, 2, 3, None]:
            for wl in ([[('A', 'B'), ('B', 'C')], [('A', 'B')]] if tier == 'quick' else [[('A', 'B'), ('B', 'C')], PAIRS, [('A', 'B')]]):
                if len(wl) == 1 and rounds in (1, None) and tier == 'quick':
                    continue
                out.append({'mech': 'aim', 'eps': eps, 'delta': delta, 'rounds': rounds, 'workload': [list(c) for c in wl]})
        # AIM with a size limit so small that the first rounds admit only one-way candidates, and AIM given an explicit generator
        out.append({'mech': 'aim', 'eps': eps, 'delta': delta, 'rounds': 12, 'workload': [list(c) for c in PAIRS], 'max_model_size': 3e-4, 'sizes': [4, 4, 4]})
        out.append({'mech': 'aim', 'eps': eps, 'delta': delta, 'rounds': 4, 'workload': [['A', 'B'], ['B', 'C']], 'prng': 'np.random'})
        # one mechanism object reused for the base and the neighbour executions; the data spelled as a unit-weighted dataset
        out.append({'mech': 'aim', 'eps': eps, 'delta': delta, 'rounds': 4, 'workload': [['A', 'B'], ['B', 'C']], 'reuse': True})
        out.append({'mech': 'mwem', 'eps': eps, 'delta': delta, 'noise': 'gaussian', 'bounded': False, 'rounds': 2, 'alpha': 0.9, 'weights': True})
        out.append({'mech': 'mwem', 'eps': eps, 'delta': delta, 'noise': 'laplace', 'bounded': True, 'rounds': 1, 'alpha': 0.9, 'weights': True})
        out.append({'mech': 'mst', 'eps': eps, 'delta': delta, 'weights': True})
        out.append({'mech': 'aim', 'eps': eps, 'delta': delta, 'rounds': 4, 'workload': [['A', 'B'], ['B', 'C']], 'weights': True})
        mw = itertools.product(['gaussian', 'laplace'], [False, True], [1, 2] if tier == 'quick' else [1, 2, 3], [0.9] if tier == 'quick' else [0.9, 0.5])
        for noise, bounded, rounds, alpha in mw:
            if tier == 'thorough' and alpha == 0.5 and rounds != 2:
                continue
            out.append({'mech': 'mwem', 'eps': eps, 'delta': delta, 'noise': noise, 'bounded': bounded, 'rounds': rounds, 'alpha': alpha})
        if tier == 'quick':
            out.append({'mech': 'mwem', 'eps': eps, 'delta': delta, 'noise': 'gaussian', 'bounded': False, 'rounds': 2, 'alpha': 0.5})
        # AIM given public structural zeros (no base record lies in the declared cell; one neighbour adds a record there)
        out.append({'mech': 'aim', 'eps': eps, 'delta': delta, 'rounds': 4, 'workload': [['A', 'B'], ['B', 'C']], 'zeros': [[['A', 'B'], [[0, 1]]]], 'ds': ['conc6']})
        # seven attributes: 21 candidate pairs for the spanning-tree selections
        out.append({'mech': 'adagrid', 'eps': eps, 'delta': delta, 'targets': [], 'split': None, 'threshold': 5.0, 'sizes': [2] * 7})
        # budget fractions that are each <= 1 but do not sum to 1 (the mechanism normalises them)
        out.append({'mech': 'adagrid', 'eps': eps, 'delta': delta, 'targets': [], 'split': [0.5, 0.25, 0.5], 'threshold': 5.0})
        # the noise parameter in another capitalisation (anything but exactly 'laplace' selects the Gaussian path of the unchanged code)
        out.append({'mech': 'mwem', 'eps': eps, 'delta': delta, 'noise': 'Laplace', 'bounded': False, 'rounds': 2, 'alpha': 0.9})
        # MWEM with a workload that leaves attribute C unmentioned
        out.append({'mech': 'mwem', 'eps': eps, 'delta': delta, 'noise': 'gaussian', 'bounded': False, 'rounds': 2, 'alpha': 0.9, 'workload': [['A', 'B']]})
        for targets, split, thr in itertools.product([[], ['C']], [None, [0.1, 0.1, 0.8]], [5.0, 0.5]):
            if tier == 'quick' and (split is None) != (thr == 5.0):
                continue
            out.append({'mech': 'adagrid', 'eps': eps, 'delta': delta, 'targets': targets, 'split': split, 'threshold': thr})
    # tiny budgets (rho of the order 1e-7): absolute tolerances or iteration caps inside the (eps, delta) -> rho conversion become
    # a sizeable fraction of the budget; every mechanism spends what the conversion returns
    for eps, delta in [(0.0008, 1e-9), (0.0012, 1e-6), (0.0015, 1e-6)]:
        out.append({'mech': 'mst', 'eps': eps, 'delta': delta, 'ds': ['spread20']})
        out.append({'mech': 'mwem', 'eps': eps, 'delta': delta, 'noise': 'gaussian', 'bounded': False, 'rounds': 2, 'alpha': 0.9, 'ds': ['spread20']})
        out.append({'mech': 'aim', 'eps': eps, 'delta': delta, 'rounds': 2, 'workload': [['A', 'B'], ['B', 'C']], 'ds': ['spread20']})
        out.append({'mech': 'adagrid', 'eps': eps, 'delta': delta, 'targets': [], 'split': None, 'threshold': 5.0, 'ds': ['spread20']})
    return out


def jobs(tier, seed):
    sizes = [2, 2, 2] if tier == 'quick' else [2, 3, 2]
    out = []
    for spec in specs(tier):
        dss = ['conc6', 'spread20'] if tier == 'quick' else ['conc6', 'spread20', 'single']
        if tier == 'quick' and spec['mech'] == 'mwem' and spec['bounded']:
            dss = ['conc6']
        if tier == 'thorough' and spec['mech'] in ('aim', 'mwem'):
            dss = ['conc6', 'spread20'] if not spec.get('bounded') else ['conc6', 'single']
        if 'sizes' in spec:
            dss = ['spread20']
        if 'ds' in spec:
            dss = spec['ds']
        for ds in dss:
            bound = 1 if tier == 'quick' else 2
            cap = None if tier == 'quick' else (150 if spec['mech'] in ('aim', 'mwem') else 120)
            if spec['mech'] == 'aim' and spec.get('rounds') is None:
                bound = 0 if tier == 'quick' else 1
                cap = 60
            if 'sizes' in spec:
                bound = 0 if tier == 'quick' else 1
                cap = 40 if len(spec['sizes']) < 7 else 10    # 7 attributes: ~150 lock-step replays per base execution
            out.append({'spec': {k: v for k, v in spec.items() if k not in ('sizes', 'ds')}, 'ds': ds, 'sizes': spec.get('sizes', sizes), 'bound': bound, 'alts': QUICK_ALTS if tier == 'quick' else FULL_ALTS,
                        'seed': seed, 'cap': cap})
    for rounds in ([1, 2, 3, 4, 6] if tier == 'quick' else [1, 2, 3, 4, 6, 8]):
        for wl in [[['A', 'B'], ['B', 'C']], [list(p) for p in PAIRS], [['A', 'B']]]:
            out.append({'aimledger': True, 'rounds': rounds, 'workload': wl, 'eps': 1.0, 'delta': 1e-6, 'seed': seed, 'tier': tier})
    return out
