"""Regenerates /verif/MANIFEST.json from the check modules that exist.
    /venv/bin/python -m mc.manifest
Properties without a check module are listed under not_applicable with the
reason stored in PENDING (kept current by hand)."""
import importlib
import json
import os

from . import VERIF, GUARD

ALL = ['C%02d' % i for i in range(1, 21)]
PENDING = {}

BASELINE_OFF = ('cd /repo && env -u %s /venv/bin/python -m pytest -ra -q -p no:cacheprovider --timeout=900 '
                '--continue-on-collection-errors' % GUARD)


def build():
    checks = []
    na = []
    for pid in ALL:
        path = os.path.join(VERIF, 'mc', 'checks', pid.lower() + '.py')
        if not os.path.exists(path):
            na.append({'property_id': pid, 'reason': PENDING.get(pid, 'check not built yet (planned, see DESIGN.md section 5)')})
            continue
        m = importlib.import_module('mc.checks.' + pid.lower())
        checks.append({
            'property_id': pid,
            'quick_cmd': 'cd /verif && /venv/bin/python -m mc.run %s --tier quick' % pid,
            'thorough_cmd': 'cd /verif && /venv/bin/python -m mc.run %s --tier thorough' % pid,
            'evidence_file': '/verif/evidence/%s.json' % pid,
            'replay_cmd_template': 'cd /verif && /venv/bin/python -m mc.run %s --replay {path}' % pid,
            'engine': 'mc',
            'level_claimed': {'category': m.LEVEL, 'text': m.LEVEL_TEXT, 'design_ref': m.DESIGN_REF},
            'level_note': m.LEVEL_NOTE,
            'technique': m.TECHNIQUE,
        })
    man = {
        'version': 1,
        'setup_cmd': 'cd /verif && /venv/bin/python -m mc.setup',
        'hooks': {
            'guard': GUARD,
            'enable': 'checks export %s=1 for their worker processes; no source hook exists in /repo at present '
                      '(all observation points are public attributes, module functions, numpy.random and sys.settrace)' % GUARD,
            'baseline_off_cmd': BASELINE_OFF,
            'source_commits': [],
            'add_only': True,
        },
        'engines': [{
            'name': 'mc', 'path': '/verif/mc',
            'serves_properties': [c['property_id'] for c in checks],
            'kind_free_text': 'hand-written bounded exhaustive explorers (structure-space enumerator, environment-answer '
                              'explorer with iterative deviation bounding, operation-sequence BFS, schedule enumerator) that '
                              'drive the real code imported from /repo; oracles are independent reference models in mc/oracle.py',
        }],
        'checks': checks,
        'not_applicable': na,
        'notes': 'All checks rebuild nothing: they import /repo/src (and load /repo/mechanisms/*.py by path) afresh in every '
                 'worker process. VERIF_SEED varies only the generic numeric values of the value alphabets. Exit 2 = harness error.',
    }
    return man


def main():
    man = build()
    with open(os.path.join(VERIF, 'MANIFEST.json'), 'w') as f:
        json.dump(man, f, indent=1)
    print('checks:', [c['property_id'] for c in man['checks']])
    print('not_applicable:', [c['property_id'] for c in man['not_applicable']])


if __name__ == '__main__':
    main()
