"""Small-scope structure spaces shared by several checks (all enumerations are
deterministic and complete within their bound)."""
import itertools

ATTRS = ['A', 'B', 'C', 'D', 'E', 'F', 'G', 'H', 'I']
SIZES_MAIN = [2, 3, 2, 2, 3, 2, 2, 2, 2]
SIZES_ONE = [1, 3, 2, 2, 2, 2, 2, 2, 2]   # contains a size-1 attribute
SIZES_BIG = [2, 36, 2, 36, 2]            # two attributes whose joint table has > 1000 cells (separator-size dependent choices)


def sizes_for(name, k):
    """size patterns: 'main', 'one' (first attribute has size 1), 'last1' (last attribute has size 1, others distinct-ish)"""
    if name == 'main':
        return SIZES_MAIN[:k]
    if name == 'one':
        return SIZES_ONE[:k]
    if name == 'last1':
        return ([3, 4, 5, 6, 2, 3][:k - 1] + [1]) if k >= 2 else [1]
    if name == 'huge':   # tables of 10^6..10^10 cells: nothing in tree construction may depend on them being small
        return [2000, 1500, 2500, 1800, 2200, 1700, 1900, 2100, 2300][:k]
    raise ValueError(name)


# naming variants: the domain ORDER of the attributes must be what matters, never the sort order of their names
SCRAMBLED = {'A': 'e', 'B': 'c', 'C': 'a', 'D': 'dd', 'E': 'b', 'F': 'd', 'G': 'aa', 'H': 'ca', 'I': 'z'}


def rename(obj, naming):
    """recursively rename attribute letters in nested lists/tuples (identity for naming == 'letters')"""
    if naming == 'letters' or obj is None:
        return obj
    if isinstance(obj, str):
        return SCRAMBLED.get(obj, obj)
    if isinstance(obj, tuple):
        return tuple(rename(o, naming) for o in obj)
    if isinstance(obj, list):
        return [rename(o, naming) for o in obj]
    return obj


def all_graphs(k):
    """every labelled graph on the first k attributes, as a list of edge tuples"""
    attrs = ATTRS[:k]
    pairs = list(itertools.combinations(attrs, 2))
    for mask in range(1 << len(pairs)):
        yield [p for i, p in enumerate(pairs) if mask >> i & 1]


def graph_by_mask(k, mask):
    pairs = list(itertools.combinations(ATTRS[:k], 2))
    return [p for i, p in enumerate(pairs) if mask >> i & 1]


def maximal_cliques(attrs, edges):
    """Bron-Kerbosch (own implementation; isolated vertices are singleton cliques)"""
    adj = {a: set() for a in attrs}
    for a, b in edges:
        adj[a].add(b)
        adj[b].add(a)
    out = []

    def bk(R, P, X):
        if not P and not X:
            out.append(tuple(sorted(R, key=attrs.index)))
            return
        for v in sorted(P, key=attrs.index):
            bk(R | {v}, P & adj[v], X & adj[v])
            P = P - {v}
            X = X | {v}
    bk(set(), set(attrs), set())
    return sorted(out)


PRESENTATIONS = ['edges', 'reversed', 'maximal', 'duplicated', 'nested', 'singletons']


def present(attrs, edges, how):
    """re-present the same graph as a different clique list"""
    if how == 'edges':
        return [tuple(e) for e in edges]
    if how == 'reversed':
        return [tuple(reversed(e)) for e in reversed(edges)]
    if how == 'maximal':
        # maximal cliques of the graph, attribute order rotated so it is not canonical
        mc = [c for c in maximal_cliques(attrs, edges) if len(c) >= 2]
        return [c[1:] + c[:1] for c in mc]
    if how == 'duplicated':
        return [tuple(e) for e in edges] + [tuple(reversed(e)) for e in edges]
    if how == 'nested':
        out = []
        for c in maximal_cliques(attrs, edges):
            for r in range(len(c), 0, -1):
                out.extend(itertools.combinations(c, r))
        seen = []
        for c in out:
            if c not in seen:
                seen.append(c)
        return seen
    if how == 'singletons':
        return [(a,) for a in attrs] + [tuple(e) for e in edges]
    raise ValueError(how)


def eliminate(attrs, cliques, order):
    """independent triangulation: eliminate `order` on the graph of `cliques`;
    returns (set of maximal elimination cliques as frozensets, number of steps)"""
    adj = {a: set() for a in attrs}
    for cl in cliques:
        for a, b in itertools.combinations(cl, 2):
            if a != b:
                adj[a].add(b)
                adj[b].add(a)
    alive = set(attrs)
    elim = []
    for v in order:
        nb = adj[v] & alive
        elim.append(frozenset(nb | {v}))
        for a, b in itertools.combinations(nb, 2):
            adj[a].add(b)
            adj[b].add(a)
        alive.discard(v)
    maximal = {c for c in elim if not any(c < d for d in elim)}
    return maximal, len(elim)


def linear_extensions(items, deps, limit=None):
    """all linear extensions of the partial order given by deps[item] = set of
    items that must come first.  DFS over down-sets; also returns the number of
    distinct down-sets (states) and extension steps (transitions) visited."""
    items = list(items)
    exts = []
    states = set()
    trans = [0]

    def rec(done, seq):
        states.add(frozenset(done))
        if len(seq) == len(items):
            exts.append(list(seq))
            return
        for it in items:
            if it in done:
                continue
            if deps[it] <= done:
                trans[0] += 1
                done.add(it)
                seq.append(it)
                rec(done, seq)
                seq.pop()
                done.discard(it)
                if limit is not None and len(exts) >= limit:
                    return
    rec(set(), [])
    return exts, len(states), trans[0]


def ordered_subtuples(attrs, maxlen=None, minlen=0):
    """every ordered tuple of distinct attributes (all subsets x all orderings)"""
    maxlen = len(attrs) if maxlen is None else maxlen
    for r in range(minlen, maxlen + 1):
        for p in itertools.permutations(attrs, r):
            yield p


def iso_classes(k):
    """one representative edge list per isomorphism class of graphs on k vertices
    (canonical form by brute force over permutations; k <= 6)"""
    attrs = ATTRS[:k]
    pairs = list(itertools.combinations(range(k), 2))
    pidx = {p: i for i, p in enumerate(pairs)}
    perms = list(itertools.permutations(range(k)))
    seen = set()
    reps = []
    for mask in range(1 << len(pairs)):
        if mask in seen:
            continue
        edges = [p for i, p in enumerate(pairs) if mask >> i & 1]
        orbit = set()
        for pm in perms:
            m = 0
            for a, b in edges:
                x, y = pm[a], pm[b]
                if x > y:
                    x, y = y, x
                m |= 1 << pidx[(x, y)]
            orbit.add(m)
        seen |= orbit
        reps.append([(attrs[a], attrs[b]) for a, b in edges])
    return reps


def compensate(attrs, sizes, pots, K=1500.0):
    """add +K*g(a) to one potential and -K*g(a) to another along an attribute a they share: the joint is unchanged, but every
    message across that separator has slices thousands of nats apart (under/overflow traps)"""
    import numpy as np
    pots = [(c, np.array(a, dtype=float, copy=True)) for c, a in pots]
    done = False
    for i in range(len(pots)):
        for j in range(i + 1, len(pots)):
            shared = [a for a in pots[i][0] if a in pots[j][0]]
            if not shared or set(pots[i][0]) == set(pots[j][0]):
                continue
            a = shared[0]
            n = sizes[list(attrs).index(a)]
            g = np.array([0.0, -1.0, 0.8, -0.6, 0.3][:n] if n <= 5 else np.linspace(-1, 1, n)) * K
            for idx, sign in ((i, 1.0), (j, -1.0)):
                c, arr = pots[idx]
                shp = [1] * arr.ndim
                shp[list(c).index(a)] = n
                pots[idx] = (c, arr + sign * g.reshape(shp))
            done = True
            break
        if done:
            break
    return pots
