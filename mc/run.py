"""Entry point:  /venv/bin/python -m mc.run <ID> --tier quick|thorough
                 /venv/bin/python -m mc.run <ID> --replay <file>
exit 0 = property held on everything explored, 1 = violation (VIOLATION line),
2 = harness error (never a VIOLATION line)."""
import argparse
import json
import os
import sys


def main():
    ap = argparse.ArgumentParser()
    ap.add_argument('pid')
    ap.add_argument('--tier', default=os.environ.get('VERIF_TIER', 'quick'), choices=['quick', 'thorough'])
    ap.add_argument('--seed', type=int, default=int(os.environ.get('VERIF_SEED', '0') or 0))
    ap.add_argument('--workers', type=int, default=int(os.environ.get('VERIF_WORKERS', '16')))
    ap.add_argument('--child', action='store_true')
    ap.add_argument('--out')
    ap.add_argument('--confirm')
    ap.add_argument('--replay')
    ap.add_argument('--no-evidence', action='store_true')
    a = ap.parse_args()
    pid = a.pid.upper()
    from . import core
    if a.child:
        core.child_main(pid, a.tier, a.seed, a.out, a.workers)
        return 0
    if a.confirm:
        core.confirm_main(pid, a.confirm, a.out)
        return 0
    if a.replay:
        rec = json.load(open(a.replay))
        hs = str(rec.get('env', {}).get('hashseed', 0))
        if os.environ.get('PYTHONHASHSEED') != hs:
            env = core._env(hs)
            os.execve(sys.executable, [sys.executable, '-m', 'mc.run', pid, '--replay', a.replay], env)
        out = os.path.join(core.scratch_dir(), 'replay.json')
        try:
            viols = core.confirm_main(pid, a.replay, out)
        finally:
            import shutil
            shutil.rmtree(os.path.dirname(out), ignore_errors=True)
        print('case: %s' % json.dumps(rec['case'])[:2000])
        if viols:
            for v in viols:
                print('REPRODUCED property=%s key=%s\n  %s' % (pid, json.dumps(v.get('key')), str(v.get('msg')).replace('\n', '\n  ')))
            return 1
        print('not reproduced: the property holds on this case')
        return 0
    return core.parent_main(pid, a.tier, a.seed, a.workers, write_evidence=not a.no_evidence)


if __name__ == '__main__':
    sys.exit(main())
