"""Lock-step mechanism engine shared by C05 (privacy ledger) and C06 (information flow).

A mechanism is run once on a base dataset D with every random answer DECIDED by the
controller (record mode), then re-run on every neighbouring dataset D' while being
forced to observe the identical released values and selections (replay mode).  The
operands the mechanism adds to each noise vector and the probability vectors of each
selection are captured on both sides, which gives the exact privacy cost of every
release on the pair (D, D') and the complete event sequence for the flow relation."""
import contextlib
import hashlib
import itertools
import math

import numpy as np

from . import envctl as E
from . import meas as M
from . import mechload
from . import oracle as O

ITER_CAP = 30


class Divergence(Exception):
    """the neighbour execution left the recorded event sequence"""


class MechanismRaised(Exception):
    pass


# ---------------------------------------------------------------------------
# noise objects
# ---------------------------------------------------------------------------
class Noise(np.ndarray):
    """ndarray subclass standing for a freshly drawn noise vector; `operand + noise`
    is intercepted so that the operand (the statistic being released) is observed."""

    def __new__(cls, vals, ev, env, coef=1.0):
        o = np.asarray(vals, dtype=float).view(cls)
        o.ev, o.env, o.coef = ev, env, coef
        return o

    def __array_finalize__(self, obj):
        self.ev = getattr(obj, 'ev', None)
        self.env = getattr(obj, 'env', None)
        self.coef = getattr(obj, 'coef', 1.0)

    def __array_ufunc__(self, ufunc, method, *inputs, **kw):
        if method == '__call__' and not kw and len(inputs) == 2 and sum(isinstance(i, Noise) for i in inputs) == 1:
            first = isinstance(inputs[0], Noise)
            me = inputs[0] if first else inputs[1]
            other = inputs[1] if first else inputs[0]
            vals = np.asarray(me).view(np.ndarray)
            scalar = np.isscalar(other) or (isinstance(other, np.ndarray) and other.ndim == 0)
            if scalar and (ufunc is np.multiply or (ufunc in (np.divide, np.true_divide) and first)):
                c = float(other) if ufunc is np.multiply else 1.0 / float(other)
                return Noise(vals * c, me.ev, me.env, me.coef * c)
            if ufunc is np.add:
                return me.env.release(me.ev, np.asarray(other, dtype=float), vals, me.coef)
            if ufunc is np.subtract and not first:
                return me.env.release(me.ev, np.asarray(other, dtype=float), -vals, me.coef)
        raise E.HarnessMisuse('noise vector used in an unsupported way: %s.%s' % (ufunc.__name__, method))


def sign_pattern(seed, k, n):
    rs = np.random.RandomState((seed * 1000003 + k * 7919 + 17) % 2 ** 31)
    s = rs.randint(0, 2, size=n) * 2.0 - 1.0
    return s * (0.5 + 0.5 * rs.rand(n))


NOISE_ALTS_FULL = ['pattern', 'zero', '+10all', '-10all', '+10first', '-10first']


class LockstepEnv:
    """mode 'record': answers decided by ctrl; mode 'replay': answers forced from trace"""

    def __init__(self, mode, ctrl=None, trace=None, seed=0, noise_alts=None):
        self.mode, self.ctrl, self.trace, self.seed = mode, ctrl, trace, seed
        self.noise_alts = noise_alts or NOISE_ALTS_FULL
        self.select_alts = None
        self.events = []

    # -- helpers ------------------------------------------------------------
    def _next(self, kind, **chk):
        i = len(self.events)
        if self.mode == 'replay':
            if i >= len(self.trace):
                raise Divergence('event %d (%s): the neighbour makes MORE random draws than the base execution (%d)' % (i, kind, len(self.trace)))
            rec = self.trace[i]
            if rec['kind'] != kind:
                raise Divergence('event %d: neighbour draws %s where the base execution drew %s' % (i, kind, rec['kind']))
            for k, v in chk.items():
                if rec.get(k) != v:
                    raise Divergence('event %d (%s): %s is %r on the neighbour but %r on the base dataset' % (i, kind, k, v, rec.get(k)))
            return i, rec
        return i, None

    # -- noise ----------------------------------------------------------------
    def _noise(self, dist, loc, scale, size):
        if np.ndim(scale) != 0:
            raise E.HarnessMisuse('vector scale')
        scale = float(scale)
        if scale < 0:
            raise E.EnvValueError('scale < 0')
        n = int(np.prod(size)) if size is not None else 1
        i, rec = self._next('noise', dist=dist, size=n, scale=scale)
        ev = {'kind': 'noise', 'i': i, 'dist': dist, 'scale': scale, 'size': n, 'x': None, 'y': None, 'coef': 1.0}
        self.events.append(ev)
        if self.mode == 'record':
            c = self.ctrl.decide('noise', len(self.noise_alts)) if (scale == scale and n > 0) else 0
            kind = self.noise_alts[c]
            if kind == 'pattern':
                z = scale * sign_pattern(self.seed, i, n)
            elif kind == 'zero':
                z = np.zeros(n)
            elif kind in ('+10all', '-10all'):
                z = np.full(n, (10.0 if kind[0] == '+' else -10.0) * scale)
            else:
                z = np.zeros(n)
                z[0] = (10.0 if kind[0] == '+' else -10.0) * scale
            ev['alt'] = kind
        else:
            z = np.zeros(n)
        return Noise(z + loc, ev, self)

    def normal(self, loc=0.0, scale=1.0, size=None):
        return self._noise('normal', loc, scale, size)

    def laplace(self, loc=0.0, scale=1.0, size=None):
        return self._noise('laplace', loc, scale, size)

    def release(self, ev, x, z, coef):
        if ev['x'] is not None:
            raise E.HarnessMisuse('one noise vector added to two operands')
        ev['x'] = np.array(x, dtype=float, copy=True).reshape(-1)
        ev['coef'] = abs(coef)
        if self.mode == 'record':
            y = x + z
            ev['y'] = np.array(y, copy=True).reshape(-1)
            return np.array(y, copy=True)
        i = ev['i']
        rec = self.trace[i]
        if rec['y'] is None:
            raise Divergence('event %d: neighbour adds the noise vector to a statistic, the base execution never did' % i)
        if rec['y'].size != ev['x'].size:
            raise Divergence('event %d: released vector has %d entries on the neighbour, %d on the base dataset' % (i, ev['x'].size, rec['y'].size))
        ev['y'] = rec['y'].copy()
        return rec['y'].copy().reshape(np.shape(x))

    # -- selections and other draws ---------------------------------------------
    def choice(self, a, size=None, replace=True, p=None):
        n = E.validate_p(a, size, replace, p)
        if p is not None and size is None:
            pp = np.array(p, dtype=float)
            i, rec = self._next('select', n=n)
            ev = {'kind': 'select', 'n': n, 'p': pp}
            self.events.append(ev)
            if self.mode == 'record':
                sup = [int(j) for j in np.argsort(-pp, kind='stable') if pp[j] > 0]
                if self.select_alts is not None:
                    sup = sup[:self.select_alts]
                c = self.ctrl.decide('select', len(sup))
                ev['out'] = sup[c]
            else:
                ev['out'] = rec['out']
            out = ev['out']
            return out if np.isscalar(a) else a[out]
        # data-independent draws: answered deterministically, arguments recorded
        i, rec = self._next('draw')
        arr = None if np.isscalar(a) else np.asarray(a)
        k = None if size is None else int(np.prod(size))
        ev = {'kind': 'draw', 'what': 'choice', 'a': n if arr is None else arr.tolist(), 'size': k, 'replace': bool(replace),
              'p': None if p is None else np.array(p, dtype=float)}
        self.events.append(ev)
        if p is not None:
            sup = np.nonzero(np.asarray(p) > 0)[0]
            if replace:
                idx = np.repeat(np.arange(n), E.largest_remainder(k, np.asarray(p, dtype=float)))
            else:
                idx = sup[:k]
        else:
            idx = np.arange(k if k is not None else 1) % n
        idx = np.asarray(idx, dtype=int)
        if size is None:
            idx = idx[0]
        return idx if arr is None else arr[idx]

    def free_choice(self, kind, nalts):
        """a decision taken by a harness stub (e.g. AIM's anneal bit under the stub estimator)"""
        i, rec = self._next('free', what=kind)
        ev = {'kind': 'free', 'what': kind}
        self.events.append(ev)
        ev['out'] = self.ctrl.decide(kind, nalts) if self.mode == 'record' else rec['out']
        return ev['out']

    def shuffle(self, x):
        self._next('draw')
        self.events.append({'kind': 'draw', 'what': 'shuffle', 'a': len(x), 'size': None, 'replace': None, 'p': None})

    def permutation(self, x):
        self._next('draw')
        n = x if np.isscalar(x) else len(x)
        self.events.append({'kind': 'draw', 'what': 'permutation', 'a': int(n), 'size': None, 'replace': None, 'p': None})
        return np.arange(n) if np.isscalar(x) else np.array(x)

    def rand(self, *shape):
        self._next('draw')
        self.events.append({'kind': 'draw', 'what': 'rand', 'a': list(shape), 'size': None, 'replace': None, 'p': None})
        return np.full(shape, 0.5) if shape else 0.5

    def randint(self, low, high=None, size=None):
        self._next('draw')
        self.events.append({'kind': 'draw', 'what': 'randint', 'a': [low, high], 'size': size, 'replace': None, 'p': None})
        lo = 0 if high is None else low
        return lo if size is None else np.full(size, lo)


# ---------------------------------------------------------------------------
# estimator seam: iteration cap + memo (estimation is deterministic post-processing)
# ---------------------------------------------------------------------------
_MEMO = {}


def _digest_measurements(ms):
    h = hashlib.blake2b(digest_size=16)
    for Q, y, noise, proj in ms:
        if Q is None:
            h.update(b'None')
        else:
            Qd = Q.toarray() if hasattr(Q, 'toarray') else (np.asarray(Q) if isinstance(Q, np.ndarray) else Q @ np.eye(Q.shape[1]))
            h.update(np.ascontiguousarray(Qd, dtype=float).tobytes())
            h.update(repr(Qd.shape).encode())
        h.update(np.ascontiguousarray(np.asarray(y, dtype=float)).tobytes())
        h.update(repr((float(noise), tuple(proj) if not isinstance(proj, str) else proj)).encode())
    return h.hexdigest()


@contextlib.contextmanager
def capped_estimator(cap=ITER_CAP, memo=True):
    import mbi.inference as inf
    FI = inf.FactoredInference
    orig = FI.estimate

    def estimate(self, measurements, total=None, engine='MD', callback=None, options={}):
        self.iters = min(self.iters, cap)
        key = None
        if memo and callback is None and not options:
            prev = ''
            if self.warm_start and hasattr(self, 'model'):
                prev = hashlib.blake2b(b''.join(np.ascontiguousarray(np.nan_to_num(self.model.potentials[cl].values, neginf=-1e300)).tobytes() +
                                                repr(cl).encode() for cl in self.model.cliques), digest_size=16).hexdigest()
            zs = repr(sorted((repr(k), np.asarray(v.values).tobytes().hex()) for k, v in self.structural_zeros.items()))
            key = (repr(self.domain), self.iters, self.warm_start, self.metric, repr(self.elim_order), zs, _digest_measurements(measurements),
                   repr(total), engine, prev)
            if key in _MEMO:
                self.model = _MEMO[key]
                return self.model
        out = orig(self, measurements, total, engine, callback, options)
        if key is not None:
            if len(_MEMO) > 4000:
                _MEMO.clear()
            _MEMO[key] = out
        return out
    FI.estimate = estimate
    try:
        yield
    finally:
        FI.estimate = orig


# ---------------------------------------------------------------------------
# datasets and neighbours
# ---------------------------------------------------------------------------
ATTRS = ['A', 'B', 'C', 'D', 'E', 'F', 'G', 'H']


def cells(sizes):
    return list(itertools.product(*[range(s) for s in sizes]))


def base_datasets(sizes):
    cs = cells(sizes)
    conc = [cs[0]] * 3 + [cs[-1]] * 2 + [cs[1]]
    spread = [cs[(i * 5) % len(cs)] for i in range(12)] + [cs[0]] * 4 + [cs[-1]] * 3 + [cs[len(cs) // 2]]
    return {'conc6': conc, 'spread20': spread, 'single': [cs[2]]}


def neighbours(recs, sizes, bounded):
    out = []
    cs = cells(sizes)
    if not bounded:
        for c in cs:
            out.append(('add', c, list(recs) + [c]))
        for r in sorted(set(recs)):
            l = list(recs)
            l.remove(r)
            if l:
                out.append(('remove', r, l))
    else:
        for r in sorted(set(recs)):
            for c in cs:
                if c != r:
                    l = list(recs)
                    l[l.index(r)] = c
                    out.append(('replace', (r, c), l))
    return out


def far_datasets(recs, sizes, bounded):
    """datasets far from `recs` (reachable through a chain of neighbours).  The flow relation of C06 is transitive
    along such a chain - every link is a pair of neighbouring datasets forced to observe the same releases - so it must
    hold for these pairs too, and a data-dependent branch is far more likely to flip on them than on one-record changes."""
    cs = cells(sizes)
    n = len(recs)
    out = []
    if bounded:
        out.append(('far', 'all-first', [cs[0]] * n))
        out.append(('far', 'all-last', [cs[-1]] * n))
        out.append(('far', 'shifted', [cs[(cs.index(tuple(r)) + len(cs) // 2 + 1) % len(cs)] for r in recs]))
    else:
        out.append(('far', 'one-record', [cs[-2]]))
        out.append(('far', 'empty', []))      # the empty table: end of the chain of removals (whether the table is empty is private too)
        out.append(('far', 'uniform-x5', [c for c in cs for _ in range(5)]))
        out.append(('far', 'all-last-x2', [cs[-1]] * (2 * n)))
        out.append(('far', 'shifted', [cs[(cs.index(tuple(r)) + len(cs) // 2 + 1) % len(cs)] for r in recs]))
    return out


def make_dataset(recs, sizes, weighted=False):
    import pandas as pd
    from mbi import Dataset, Domain
    df = pd.DataFrame(np.array(recs, dtype=int).reshape(len(recs), len(sizes)), columns=ATTRS[:len(sizes)])
    if weighted:   # the same data spelled as a weighted dataset with unit weights
        return Dataset(df, Domain(ATTRS[:len(sizes)], sizes), np.ones(len(recs)))
    return Dataset(df, Domain(ATTRS[:len(sizes)], sizes))


# ---------------------------------------------------------------------------
# mechanism drivers
# ---------------------------------------------------------------------------
_REUSED = {}


def mechanism_call(spec, fresh=True):
    """spec: dict(mech=..., eps, delta, ...) -> (callable(dataset) -> synthetic Dataset, bounded, unit).
    spec['reuse']: the neighbour executions run on the SAME mechanism object as the base execution (a new object per base execution)"""
    mech = spec['mech']
    eps, delta = spec['eps'], spec['delta']
    if mech == 'mst':
        mod = mechload.load('mst')
        return (lambda d: mod.MST(d, eps, delta)), False, 'rho'
    if mech == 'aim':
        mod = mechload.load('aim')
        wl = [(tuple(c), 1.0) for c in spec['workload']]
        kw = {}
        if 'max_model_size' in spec:
            kw['max_model_size'] = spec['max_model_size']
        if spec.get('prng') == 'np.random':
            kw['prng'] = np.random
        if 'zeros' in spec:
            kw['structural_zeros'] = {tuple(k): [tuple(c) for c in v] for k, v in spec['zeros']}
        if spec.get('reuse'):
            if fresh or 'aim' not in _REUSED:
                _REUSED['aim'] = mod.AIM(eps, delta, rounds=spec.get('rounds'), **kw)
            obj = _REUSED['aim']
            return (lambda d: obj.run(d, wl)), False, 'rho'
        return (lambda d: mod.AIM(eps, delta, rounds=spec.get('rounds'), **kw).run(d, wl)), False, 'rho'
    if mech == 'mwem':
        mod = mechload.load('mwem')
        bounded = spec['bounded']
        unit = 'eps' if spec['noise'] == 'laplace' else 'rho'
        return (lambda d: mod.mwem_pgm(d, eps, delta if unit == 'rho' else 0.0, rounds=spec['rounds'], pgm_iters=ITER_CAP, noise=spec['noise'],
                                       bounded=bounded, alpha=spec['alpha'], **({'workload': [tuple(c) for c in spec['workload']]} if 'workload' in spec else {}))), bounded, unit
    if mech == 'adagrid':
        mod = mechload.load('adaptive_grid')
        return (lambda d: mod.adagrid(d, eps, delta, spec['threshold'], targets=list(spec['targets']), split_strategy=spec['split'], iters=ITER_CAP)), False, 'rho'
    raise ValueError(mech)


LAST_INPUT_MUTATION = [None]


def run_mechanism(fn, recs, sizes, env, weighted=False):
    ds = make_dataset(recs, sizes, weighted)
    dom0 = ds.domain
    snap = (tuple(dom0.attrs), tuple(dom0.shape), dict(dom0.config), ds.df.values.copy(), list(ds.df.columns))
    try:
        return _run_mechanism(fn, ds, env)
    finally:
        bad = None
        if (tuple(dom0.attrs), tuple(dom0.shape), dict(dom0.config)) != snap[:3]:
            bad = 'the Domain object of the input dataset was modified: now %r / config %r' % (dom0, dom0.config)
        elif ds.domain is not dom0 or list(ds.df.columns) != snap[4] or ds.df.shape != snap[3].shape or not np.array_equal(ds.df.values, snap[3]):
            bad = 'the input dataset (frame or domain reference) was modified'
        LAST_INPUT_MUTATION[0] = bad


def _run_mechanism(fn, ds, env):
    with E.installed(env), capped_estimator(), M.quiet():
        try:
            out = fn(ds)
        except ValueError as ex:
            # numpy's own argument validation (reproduced by the controller): NaN / negative probabilities or scales
            if any(s in str(ex) for s in ('probabilities', 'scale < 0', 'Fewer non-zero', 'a must be', "'a' and 'p'")):
                raise MechanismRaised(str(ex))
            raise
    return out


def trace_of(env):
    return [dict(ev) for ev in env.events]


# ---------------------------------------------------------------------------
# accounting
# ---------------------------------------------------------------------------
def pair_cost(evD, evN):
    """(rho, pure_eps, details) for one aligned pair of event logs"""
    rho = 0.0
    eps = 0.0
    det = []
    for k, (a, b) in enumerate(zip(evD, evN)):
        if a['kind'] == 'noise':
            if a['x'] is None and b['x'] is None:
                continue
            if a['x'] is None or b['x'] is None or a['x'].size != b['x'].size:
                return float('inf'), float('inf'), [(k, 'noise', 'operand missing or of different size')]
            d = a['x'] - b['x']
            s = a['scale'] * a.get('coef', 1.0)
            if a['dist'] == 'normal':
                c = float(d @ d) / (2 * s * s) if s > 0 else (0.0 if not d.any() else float('inf'))
                rho += c
                eps += float('inf') if c > 0 else 0.0
                det.append((k, 'gauss', c))
            else:
                c = float(np.abs(d).sum()) / s if s > 0 else (0.0 if not d.any() else float('inf'))
                eps += c
                rho += c * c / 2
                det.append((k, 'laplace', c))
        elif a['kind'] == 'select' or (a['kind'] == 'draw' and a.get('p') is not None):
            pa, pb = a['p'], b['p']
            if pa is None or pb is None or pa.shape != pb.shape:
                return float('inf'), float('inf'), [(k, 'select', 'candidate sets differ')]
            if not np.array_equal(pa > 0, pb > 0):
                return float('inf'), float('inf'), [(k, 'select', 'supports differ')]
            m = pa > 0
            L = np.log(pa[m]) - np.log(pb[m])
            r = float(L.max() - L.min()) if L.size else 0.0
            rho += r * r / 8
            eps += float(np.abs(L).max()) if L.size else 0.0
            det.append((k, 'select', r * r / 8))
    return rho, eps, det


_RHO = {}


def budget_rho(eps, delta):
    """the zCDP budget implied by (eps, delta), by the INDEPENDENT bound: the largest rho with delta_ref(rho, eps) <= delta"""
    key = (eps, delta)
    if key not in _RHO:
        lo, hi = 0.0, eps + 1.0
        for _ in range(200):
            mid = (lo + hi) / 2
            if O.delta_ref(mid, eps) <= delta:
                lo = mid
            else:
                hi = mid
        _RHO[key] = lo
    return _RHO[key]


# ---------------------------------------------------------------------------
# exploration: base executions within the deviation bound x all neighbours
# ---------------------------------------------------------------------------
class BaseExec:
    def __init__(self, ctrl, events, out, raised):
        self.ctrl, self.events, self.out, self.raised = ctrl, events, out, raised


def run_base(spec, recs, sizes, prefix, seed, noise_alts):
    fn, bounded, unit = mechanism_call(spec)
    ctrl = E.Controller(prefix)
    env = LockstepEnv('record', ctrl=ctrl, seed=seed, noise_alts=noise_alts)
    raised = None
    out = None
    try:
        out = run_mechanism(fn, recs, sizes, env, bool(spec.get('weights')))
    except MechanismRaised as ex:
        raised = str(ex)
    ctrl.base = BaseExec(ctrl, trace_of(env), out, raised)
    ctrl.base.input_mutation = LAST_INPUT_MUTATION[0]
    return ctrl


def run_neighbour(spec, recs, sizes, trace, seed):
    fn, bounded, unit = mechanism_call(spec, fresh=False)
    env = LockstepEnv('replay', trace=trace, seed=seed)
    try:
        out = run_mechanism(fn, recs, sizes, env, bool(spec.get('weights')))
    except Divergence as ex:
        return {'diverged': str(ex), 'events': trace_of(env), 'out': None}
    except MechanismRaised as ex:
        return {'diverged': 'neighbour raised (%s) where the base execution returned' % ex, 'events': trace_of(env), 'out': None}
    if len(env.events) != len(trace):
        return {'diverged': 'the neighbour makes FEWER random draws (%d) than the base execution (%d)' % (len(env.events), len(trace)),
                'events': trace_of(env), 'out': out}
    return {'diverged': None, 'events': trace_of(env), 'out': out}


def explore_spec(spec, dsname, sizes, bound, seed, noise_alts, cap=None, only_prefix=None, far=False):
    """yields (ctrl, base, [(tag, what, neighbour result)])"""
    recs = base_datasets(sizes)[dsname]
    fn, bounded, unit = mechanism_call(spec)
    nbs = neighbours(recs, sizes, bounded)
    if far:
        nbs = nbs + far_datasets(recs, sizes, bounded)

    def run(prefix):
        return run_base(spec, recs, sizes, prefix, seed, noise_alts)
    it = [run(only_prefix)] if only_prefix is not None else E.explore(run, bound, cap=cap)
    for ctrl in it:
        base = ctrl.base
        results = []
        if base.raised is None:
            for tag, what, nrecs in nbs:
                results.append((tag, what, run_neighbour(spec, nrecs, sizes, base.events, seed)))
        yield ctrl, base, results
