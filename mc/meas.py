"""Measurement-set alphabets shared by the estimation checks (C03, C04, C08, C10, C13, C18)
plus small harness seams (quiet stdout, deterministic eigsh start vector)."""
import contextlib
import io
import itertools
import zlib

import numpy as np

from . import oracle as O

ATTRS3 = ['A', 'B', 'C']
SIZES3 = [2, 3, 2]
ATTRS4 = ['A', 'B', 'C', 'D']
SIZES4 = [2, 2, 3, 2]
MENU3 = [('A',), ('B',), ('A', 'B'), ('B', 'C'), ('C', 'A'), ('A', 'B', 'C'), ('C',)]
MENU4 = [('A', 'B'), ('B', 'C'), ('C', 'D'), ('D', 'A'), ('B',), ('C',), ('A', 'C', 'D'), ('D', 'B')]
KINDS = ['dense', 'none', 'sparse', 'linop', 'prefix', 'tall']
SIGMAS = [1.0, 0.5, 4.0]


def structures(menu, maxsize=3):
    return [s for r in range(1, maxsize + 1) for s in itertools.combinations(menu, r)]


@contextlib.contextmanager
def quiet():
    with contextlib.redirect_stdout(io.StringIO()):
        yield


_EIGSH_PATCHED = False


def deterministic_eigsh():
    """seam: ARPACK's random start vector makes _lipschitz differ in the last bits between
    calls; pass a fixed generic start vector instead (no semantic change)."""
    global _EIGSH_PATCHED
    if _EIGSH_PATCHED:
        return
    import mbi.inference as inf
    real = inf.eigsh

    def eigsh_fixed(A, k=6, **kw):
        if 'v0' not in kw:
            n = A.shape[0]
            kw['v0'] = np.random.RandomState(12345).rand(n) + 0.5
        return real(A, k, **kw)
    inf.eigsh = eigsh_fixed
    _EIGSH_PATCHED = True


def dense_query(kind, n, rng):
    if kind in ('dense', 'none', 'sparse', 'linop', 'booleye'):
        return np.eye(n)
    if kind in ('prefix', 'intprefix'):
        return np.tril(np.ones((n, n)))
    if kind == 'tall':
        return rng.randn(n + 2, n)
    if kind == 'scaled':
        return np.diag(np.arange(1.0, n + 1.0))
    if kind == 'partial':      # every second cell only: the overall count is not in the row space (n >= 2)
        return np.eye(n)[::2]
    if kind == 'diff':         # differences of neighbouring cells: rows orthogonal to the ones vector
        return (np.eye(n) - np.eye(n, k=1))[:-1]
    raise ValueError(kind)


def wrap(kind, Qd):
    from scipy import sparse
    from scipy.sparse.linalg import aslinearoperator
    if kind == 'none':
        return None
    if kind == 'sparse':
        return sparse.csr_matrix(Qd)
    if kind == 'linop':
        return aslinearoperator(Qd)
    if kind == 'intprefix':     # the same query written with integer entries
        return Qd.astype(np.int64)
    if kind == 'booleye':
        return Qd.astype(bool)
    return Qd


class Problem:
    """a measurement set over a small domain together with its dense description"""

    def __init__(self, attrs, sizes, struct, si, truthkind, seed, total=60.0, noise_mult=2.0, kinds=None, sigmas=None):
        self.attrs, self.sizes = list(attrs), list(sizes)
        self.struct = [tuple(c) for c in struct]
        n = int(np.prod(sizes))
        rng = np.random.RandomState(zlib.crc32(repr((seed, si, truthkind, self.struct)).encode()) % 2 ** 31)
        T = float(total)
        if truthkind == 'pos':
            truth = rng.dirichlet(np.ones(n) * 3) * T
        elif truthkind == 'sparse':
            truth = rng.dirichlet(np.ones(n) * 0.3) * T
            truth[rng.rand(n) < 0.4] = 0
            if truth.sum() == 0:
                truth[0] = 1.0
            truth *= T / truth.sum()
        elif truthkind == 'uniform':
            truth = np.ones(n) * T / n
        else:
            raise ValueError(truthkind)
        self.truth, self.T = truth, T
        self.meas, self.dense, rowsA, rowsb = [], [], [], []
        kinds = kinds or KINDS
        sigmas = sigmas or SIGMAS
        for i, cl in enumerate(self.struct):
            m = int(np.prod([sizes[attrs.index(a)] for a in cl]))
            kd = kinds[(i + si) % len(kinds)]
            s = sigmas[(i + si) % len(sigmas)]
            Qd = dense_query(kd, m, rng)
            M = O.marginal_matrix(attrs, sizes, cl)
            y = Qd @ M @ truth + rng.randn(Qd.shape[0]) * s * noise_mult
            self.meas.append((wrap(kd, Qd), y, s, cl))
            self.dense.append((Qd, y, s, cl, kd))
            rowsA.append(Qd @ M / s)
            rowsb.append(y / s)
        self.A = np.vstack(rowsA) if rowsA else np.zeros((0, n))
        self.b = np.concatenate(rowsb) if rowsb else np.zeros(0)

    def f(self, p):
        r = self.A @ np.asarray(p, dtype=float) - self.b
        return 0.5 * float(r @ r)

    def fresh_measurements(self):
        """new container objects each time (the estimator must not rely on identity)"""
        return [(wrap(kd, Qd.copy()), y.copy(), s, tuple(cl)) for (Qd, y, s, cl, kd) in self.dense]

    def reference(self, T):
        """certified optimum over {p >= 0, sum p = T}: returns (p_ref, f_ref, gap_ref)"""
        if self.A.shape[0] == 0:
            n = self.A.shape[1]
            return np.ones(n) * T / n, 0.0, 0.0
        return O.fista_simplex(self.A, self.b, T)

    def uniform(self, T):
        n = self.A.shape[1]
        return np.ones(n) * T / n
