"""Bounded exhaustive exploration harness for ryan112358/private-pgm.

Every check in mc.checks enumerates a finite space of executions of the *real*
code under /repo (or $VERIF_REPO) and evaluates an independent oracle on each
of them.  See /verif/DESIGN.md.
"""
import os
import sys

VERIF = os.path.dirname(os.path.dirname(os.path.abspath(__file__)))
REPO = os.environ.get('VERIF_REPO', '/repo')
GUARD = 'PRIVATE_PGM_VERIF'


def bind_repo():
    """Make `import mbi` resolve to the working tree under REPO and verify it."""
    src = os.path.join(REPO, 'src')
    if sys.path[0] != src:
        sys.path.insert(0, src)
    if REPO not in sys.path:
        sys.path.insert(1, REPO)
    import warnings
    warnings.filterwarnings('ignore')
    import mbi
    real = os.path.realpath(mbi.__file__)
    if not real.startswith(os.path.realpath(src) + os.sep):
        raise RuntimeError('mbi imported from %s, expected under %s' % (real, src))
    return mbi
