"""C09 - known totals are honoured; unknown totals are the best linear estimate.

E1: query-matrix kinds x wrappings x sizes 1..64 x noise scales x data sizes, single
measurements and all ordered pairs of kinds on two attributes, for the four copies
of the total estimator.  Oracle: dense pseudo-inverse + inverse-variance formula."""
import ast
import itertools
import os

import numpy as np

from ..core import Acc
from .. import REPO
from .. import meas as M

PROPERTY = 'C09'
LEVEL = 'exploration'
DESIGN_REF = 'DESIGN.md section 5 / C09'
TECHNIQUE = 'exhaustive enumeration of query-matrix kinds x sizes x wrappings x noise/data alphabets on the four real total estimators; dense pinv reference'
RULE = ('case = (estimator, query kinds, wrapping, sizes, noise scale, N, noisy|noise-free); kinds: identity, 3I, prefix, all ranges, '
        'generic square, generic tall, difference (1 not in row space), [1;e1] (rank deficient, 1 in row space); sizes 1,2,3,4,8,16,32,64 '
        'for single measurements, all ordered pairs of kinds on a two-attribute domain; estimators: FactoredInference, LocalInference, '
        'PublicInference, mixture_inference.estimate_total (extracted with ast); wrappings dense / sparse / operator and, for sizes 2 and 8, the element types int64 / bool / float32 / sparse int64 where exact. non-trivial = matrix size >= 2; distinct = digest of the case.')
LEVEL_TEXT = ('Complete sweep of the stated matrix-kind x size x wrapping x noise alphabet through each of the four copies of the estimator; '
              'the returned total is compared with the closed-form minimum-variance combination computed with a dense pseudo-inverse, '
              'and with N for noise-free full-rank measurements; supplied totals are checked bit for bit.')
LEVEL_NOTE = 'Matrix entries of the generic kinds are seeded; sizes bounded by 64; conditioning of generic squares bounded by 1e3 (re-drawn otherwise).'
ASSUMPTIONS = ['numpy.linalg.pinv is trusted', 'a measurement participates iff ||Q^T pinv(Q^T) 1 - 1||_inf <= 1e-8 (the alphabet has no borderline matrices)']

KINDS = ['identity', 'scaled', 'prefix', 'ranges', 'gensquare', 'gentall', 'diff', 'ones_e1', 'identity_total', 'stacked', 'hadamard', 'total_diff']
WRAPS = ['dense', 'sparse', 'linop']
TYPED_WRAPS = ['int64', 'bool', 'float32', 'sparse-int64']   # element types of the stored matrix (sizes <= 8 only)
SIZES = [1, 2, 3, 4, 8, 16, 32, 64]
NOISES = [0.5, 1.0, 3.0]


def bounds(tier):
    return {'sizes': SIZES, 'kinds': KINDS, 'wrappings': WRAPS + TYPED_WRAPS, 'noise_scales': NOISES, 'N': [1, 7, 1000],
            'pairs': 'all ordered pairs of kinds, sizes (4,8)' + ('' if tier == 'quick' else ' and (3,16), (32,2)')}


def matrix(kind, n, rng):
    if kind == 'identity':
        return np.eye(n)
    if kind == 'scaled':
        return 3.0 * np.eye(n)
    if kind == 'prefix':
        return np.tril(np.ones((n, n)))
    if kind == 'ranges':
        rows = []
        for i in range(n):
            for j in range(i, n):
                r = np.zeros(n)
                r[i:j + 1] = 1
                rows.append(r)
        return np.array(rows)
    if kind == 'gensquare':
        for _ in range(100):
            Q = rng.randn(n, n)
            if np.linalg.cond(Q) <= 1e3:
                return Q
        return np.eye(n) + 0.1 * rng.randn(n, n)
    if kind == 'gentall':
        for _ in range(100):
            Q = rng.randn(n + 3, n)
            if np.linalg.cond(Q) <= 1e3:
                return Q
        return Q
    if kind == 'identity_total':   # tall, equal column sums, rows of different weight: [I; 1^T]
        return np.vstack([np.eye(n), np.ones((1, n))])
    if kind == 'stacked':          # tall, equal column sums: [I; 3I]
        return np.vstack([np.eye(n), 3.0 * np.eye(n)])
    if kind == 'hadamard':         # signed, full rank, all column sums but the first cancel exactly
        if n & (n - 1) or n < 2:
            return None
        H = np.array([[1.0]])
        while H.shape[0] < n:
            H = np.block([[H, H], [H, -H]])
        return H
    if kind == 'total_diff':       # [1^T; first differences]: square, full rank, last column sums to zero
        if n < 2:
            return None
        return np.vstack([np.ones((1, n)), (np.eye(n) - np.eye(n, k=1))[:-1]])
    if kind == 'diff':
        if n < 2:
            return None
        return (np.eye(n) - np.eye(n, k=1))[:-1]
    if kind == 'ones_e1':
        if n < 2:
            return None
        e = np.zeros(n)
        e[0] = 1
        return np.vstack([np.ones(n), e])
    raise ValueError(kind)


TYPED = {'int64': np.int64, 'bool': bool, 'float32': np.float32, 'sparse-int64': np.int64}


def wrap(w, Q):
    """the element-type wrappings store the same matrix with another dtype; only where that is exact (otherwise the dense float64 matrix)"""
    if w in TYPED:
        Qt = Q.astype(TYPED[w])
        if not np.array_equal(Qt.astype(float), Q):
            return Q
        if w == 'sparse-int64':
            from scipy import sparse
            return sparse.csr_matrix(Qt)
        return Qt
    return M.wrap(w, Q)


def reference_total(dense_meas):
    est, var = [], []
    for Q, y, s in dense_meas:
        o = np.ones(Q.shape[1])
        v = np.linalg.pinv(Q.T) @ o
        if np.abs(Q.T @ v - o).max() <= 1e-8:
            est.append(float(v @ y))
            var.append(s * s * float(v @ v))
    if not est:
        return 1.0, 0
    est, var = np.array(est), np.array(var)
    w = 1.0 / var
    return max(1.0, float(np.sum(w * est) / np.sum(w))), len(est)


_MIX = None


def mixture_estimate_total():
    """extract estimate_total from mixture_inference.py (module imports jax, absent here)"""
    global _MIX
    if _MIX is None:
        src = open(os.path.join(REPO, 'src', 'mbi', 'mixture_inference.py')).read()
        tree = ast.parse(src)
        fn = [n for n in tree.body if isinstance(n, ast.FunctionDef) and n.name == 'estimate_total']
        assert len(fn) == 1, 'estimate_total not found in mixture_inference.py'
        mod = ast.Module(body=fn, type_ignores=[])
        ns = {}
        import numpy
        from scipy.sparse.linalg import lsmr
        ns['np'] = numpy
        ns['lsmr'] = lsmr
        exec(compile(mod, 'mixture_inference.py:estimate_total', 'exec'), ns)
        _MIX = ns['estimate_total']
    return _MIX


def estimators():
    from mbi import Domain, FactoredInference, LocalInference
    import mbi.public_inference as pub

    def fi(attrs, sizes, ms):
        eng = FactoredInference(Domain(attrs, sizes), iters=1)
        model = eng.estimate(ms, total=None, engine='MD')
        sums = [float(np.sum(model.project(a).datavector())) for a in attrs]
        return float(model.total), sums

    def li(attrs, sizes, ms):
        eng = LocalInference(Domain(attrs, sizes), iters=1, marginal_oracle='convex')
        eng._setup(ms, None)
        return float(eng.model.total), []

    def pi(attrs, sizes, ms):
        return float(pub.estimate_total(ms)), []

    def mi(attrs, sizes, ms):
        return float(mixture_estimate_total()(ms)), []
    return {'FactoredInference': fi, 'LocalInference': li, 'PublicInference': pi, 'MixtureInference': mi}


def run_case(acc, case):
    """case: attrs sizes, list of (kind, attr index), wrap, noise, N, noisy, estimator"""
    attrs = ['A', 'B'][:len(case['sizes'])]
    sizes = case['sizes']
    rng = np.random.RandomState(case['seed'] * 31 + sum(sizes) * 7 + len(case['kinds']))
    N = case['N']
    # data vector per attribute: N records spread deterministically
    dense, ms = [], []
    for kind, ai in case['kinds']:
        n = sizes[ai]
        Q = matrix(kind, n, rng)
        if Q is None:
            return None
        x = np.zeros(n)
        for r in range(min(N, 5000)):
            x[(r * 7 + ai) % n] += 1
        x *= N / x.sum()
        y = Q @ x
        if case['noisy']:
            y = y + case['noise'] * np.array([((-1) ** i) * (0.3 + 0.1 * (i % 5)) for i in range(Q.shape[0])])
        s_i = case['noise'] * (1.0 if ai == 0 else 2.5)   # measurements of one set carry different noise scales
        dense.append((Q, y, s_i))
        ms.append((wrap(case['wrap'], Q), y.copy(), s_i, (attrs[ai],)))
    ref, nparts = reference_total(dense)
    fn = estimators()[case['estimator']]
    with M.quiet():
        got, sums = fn(attrs, sizes, ms)
    fails = []
    if not abs(got - ref) <= 1e-6 * max(1.0, abs(ref)):
        fails.append('total estimated as %.10g, minimum-variance linear estimate from %d participating measurement(s) is %.10g' % (got, nparts, ref))
    if not case['noisy'] and nparts > 0 and not abs(got - max(1, N)) <= 1e-6 * max(1, N):
        fails.append('noise-free measurements of N=%d records gave total %.10g' % (N, got))
    if got < 1.0:
        fails.append('total %r is below 1' % got)
    for s in sums:
        if not abs(s - got) <= 1e-9 * max(1.0, got):
            fails.append('an answer sums to %.12g, model total is %.12g' % (s, got))
    acc.outcome('participating=%d' % nparts)
    return fails


def supplied_case(acc, total, engine_name):
    from mbi import Domain, FactoredInference, LocalInference, PublicInference, Dataset
    import pandas as pd
    attrs, sizes = ['A', 'B'], [3, 4]
    dom = Domain(attrs, sizes)
    rng = np.random.RandomState(5)
    ms = [(np.eye(3), rng.rand(3) * 50, 1.0, ('A',)), (np.tril(np.ones((4, 4))), rng.rand(4) * 50, 2.0, ('B',)),
          (np.eye(12), rng.rand(12) * 20, 1.5, ('A', 'B'))]
    fails = []
    with M.quiet():
        if engine_name in ('MD', 'RDA', 'IG'):
            model = FactoredInference(dom, iters=3).estimate(ms, total=total, engine=engine_name)
            if model.total is not total and model.total != total:
                fails.append('model.total=%r, supplied %r' % (model.total, total))
            for t in [('A',), ('B',), ('A', 'B'), ('B', 'A')]:
                s = float(model.project(t).datavector().sum())
                if not abs(s - total) <= 1e-9 * total:
                    fails.append('project(%r) sums to %.12g, supplied total %r' % (t, s, total))
            s = float(model.datavector().sum())
            if not abs(s - total) <= 1e-9 * total:
                fails.append('datavector sums to %.12g' % s)
            # boundary input: no measurements at all (how MWEM+PGM initialises its model under bounded adjacency), also through the infer alias
            for how in ('estimate', 'infer'):
                e0 = FactoredInference(dom, iters=3)
                m0 = getattr(e0, how)([], total=total, engine=engine_name)
                sums0 = [float(m0.project(t).datavector().sum()) for t in [('A',), ('B', 'A')]] + [float(m0.datavector().sum())]
                if m0.total != total or any(abs(x - total) > 1e-9 * total for x in sums0):
                    fails.append('%s([], total=%r): model.total=%r, answers sum to %r' % (how, total, m0.total, sums0))
        elif engine_name == 'Local':
            from mbi import RegionGraph, FactorGraph
            cliques = [m_[3] for m_ in ms]
            oracles = [('convex', lambda: 'convex'), ('approx', lambda: 'approx'), ('pairwise', lambda: 'pairwise'),   # 'pairwise-convex' needs cvxopt, which is not installed
                       # a caller-built oracle object (constructed with its own default / different total) is re-targeted to the call's total
                       ('RegionGraph object', lambda: RegionGraph(dom, cliques, convex=True, iters=1)),
                       ('RegionGraph object built with total 3', lambda: RegionGraph(dom, cliques, 3.0, convex=False, iters=1)),
                       ('FactorGraph object', lambda: FactorGraph(dom, cliques, convex=False, iters=1))]
            for oname, mk in oracles:
                oracle = mk()
                if not isinstance(oracle, str):
                    from mbi import CliqueVector
                    oracle.potentials = CliqueVector.zeros(dom, oracle.cliques)
                eng = LocalInference(dom, iters=3, marginal_oracle=oracle)
                model = eng.estimate(ms, total=total)
                if model.total != total:
                    fails.append('LocalInference(%s) model.total=%r, supplied %r' % (oname, model.total, total))
                sums = {}
                for cl in model.cliques:
                    sums['marginals[%r]' % (cl,)] = float(np.sum(model.marginals[cl].values))
                for t in [('A',), ('B',), ('A', 'B'), ('B', 'A')]:
                    sums['project(%r)' % (t,)] = float(np.sum(model.project(t).datavector()))
                bad = {k: v for k, v in sums.items() if not abs(v - total) <= 1e-9 * total}
                if bad:
                    fails.append('LocalInference(%s): supplied total %r but answers sum to %r' % (oname, total, bad))
        else:
            pub = Dataset(pd.DataFrame([[0, 0], [1, 2], [2, 3], [1, 1], [0, 3]], columns=attrs), dom)
            est = PublicInference(pub).estimate(ms, total=total)
            if not abs(est.weights.sum() - total) <= 1e-9 * total:
                fails.append('PublicInference weights sum to %.12g, supplied %r' % (est.weights.sum(), total))
    return fails


def history_case(acc, warm, engines, totals):
    """E3: consecutive estimate calls on ONE estimator over the same cliques with different (supplied or omitted) totals"""
    from mbi import Domain, FactoredInference
    attrs, sizes = ['A', 'B'], [3, 4]
    eng = FactoredInference(Domain(attrs, sizes), iters=3, warm_start=warm)
    fails = []
    for step, (engine, total) in enumerate(zip(engines, totals)):
        N = 20.0 * (step + 2)
        xa, xb = np.array([0.5, 0.3, 0.2]) * N, np.array([0.1, 0.2, 0.3, 0.4]) * N
        # same projections and shapes on every call, but different queries (nothing about a query may be remembered by shape)
        Qa = [np.eye(3), 0.5 * np.eye(3), np.tril(np.ones((3, 3))), np.diag([1.0, 2.0, 4.0])][step % 4]
        Qb = [np.tril(np.ones((4, 4))), np.eye(4), 3.0 * np.eye(4), np.triu(np.ones((4, 4)))][step % 4]
        ms = [(Qa, Qa @ xa, 1.0, ('A',)), (Qb, Qb @ xb, 2.0, ('B',))]
        with M.quiet():
            model = eng.estimate(ms, total=total, engine=engine)
        want = total if total is not None else N
        sums = [float(model.project(t).datavector().sum()) for t in [('A',), ('B',), ('B', 'A')]]
        if abs(model.total - want) > 1e-6 * want or any(abs(x - want) > 1e-6 * want for x in sums):
            fails.append('call %d (%s, total=%r, noise-free N=%g): model.total=%r, answers sum to %r' % (step + 1, engine, total, N, model.total, sums))
    # the same measurement tuples (the very same answer arrays) passed to three consecutive calls with the total omitted, noise != 1
    N = 120.0
    xa, xb = np.array([0.5, 0.3, 0.2]) * N, np.array([0.1, 0.2, 0.3, 0.4]) * N
    ms = [(np.eye(3), xa.copy(), 2.0, ('A',)), (np.tril(np.ones((4, 4))), np.tril(np.ones((4, 4))) @ xb, 0.5, ('B',))]
    snap = [np.array(m_[1], copy=True) for m_ in ms]
    for step in range(3):
        e_ = eng if step < 2 else FactoredInference(Domain(attrs, sizes), iters=3)    # the third call on a brand-new engine
        with M.quiet():
            model = e_.estimate(ms, total=None, engine=engines[step % len(engines)])
        if abs(model.total - N) > 1e-6 * N:
            fails.append('same measurement arrays, call %d, total omitted (noise-free N=%g): model.total=%r' % (step + 1, N, model.total))
            break
    if any(not np.array_equal(a, np.asarray(m_[1])) for a, m_ in zip(snap, ms)):
        fails.append('estimate modified the caller\'s answer arrays')
    return fails


def jobs(tier, seed):
    out = [{'mode': 'history', 'seed': seed, 'tier': tier}]
    for est in ['FactoredInference', 'LocalInference', 'PublicInference', 'MixtureInference']:
        for kind in KINDS:
            out.append({'mode': 'single', 'estimator': est, 'kind': kind, 'seed': seed, 'tier': tier})
        out.append({'mode': 'pairs', 'estimator': est, 'seed': seed, 'tier': tier})
    out.append({'mode': 'supplied', 'seed': seed, 'tier': tier})
    return out


def cases_of(job):
    if job['mode'] == 'single':
        for n in SIZES:
            for w in WRAPS + (TYPED_WRAPS if n in (2, 8) else []):
                for noise in NOISES:
                    for N in [1, 7, 1000]:
                        for noisy in (True, False):
                            if not noisy and noise != 1.0:
                                continue
                            yield {'sizes': [n], 'kinds': [[job['kind'], 0]], 'wrap': w, 'noise': noise, 'N': N, 'noisy': noisy,
                                   'estimator': job['estimator'], 'seed': job['seed']}
    elif job['mode'] == 'pairs':
        szs = [[4, 8]] if job['tier'] == 'quick' else [[4, 8], [3, 16], [32, 2]]
        for sizes in szs:
            for k1, k2 in itertools.product(KINDS, KINDS):
                for w in (['dense'] if job['tier'] == 'quick' else WRAPS):
                    for noisy in (True, False):
                        yield {'sizes': sizes, 'kinds': [[k1, 0], [k2, 1]], 'wrap': w, 'noise': 0.5 if k1 < k2 else 3.0, 'N': 37, 'noisy': noisy,
                               'estimator': job['estimator'], 'seed': job['seed']}


def history_jobs():
    out = []
    for warm in (False, True):
        for engines in itertools.product(['MD', 'RDA', 'IG'], repeat=2):
            for totals in [(100.0, 250.0), (100.0, None), (None, 40.0), (None, None), (7.5, 7.5)]:
                out.append((warm, list(engines), list(totals)))
        out.append((warm, ['MD', 'MD', 'MD', 'MD'], [100.0, 250.0, 40.0, None]))
    return out


def run_job(job):
    acc = Acc()
    if job['mode'] == 'history':
        for warm, engines, totals in history_jobs():
            case = {'history': True, 'warm': warm, 'engines': engines, 'totals': totals}
            acc.case(case)
            fails = history_case(acc, warm, engines, totals)
            acc.outcome('history:%s' % ('ok' if not fails else 'FAIL'))
            if fails:
                acc.violate(case, {'kind': 'total-history', 'warm': warm}, 'warm_start=%s: %s' % (warm, '; '.join(fails[:3])))
        acc.sample(case)
        return acc
    if job['mode'] == 'supplied':
        for total in [1, 1.0, 7.25, 1000, 1e6]:
            for eng in ['MD', 'RDA', 'IG', 'Local', 'Public']:
                case = {'supplied': total, 'engine': eng}
                acc.case(case)
                fails = supplied_case(acc, total, eng)
                acc.outcome('supplied:%s' % ('ok' if not fails else 'FAIL'))
                if fails:
                    acc.violate(case, {'kind': 'supplied-total', 'engine': eng}, '; '.join(fails[:4]))
        return acc
    last = None
    for case in cases_of(job):
        fails = run_case(acc, case)
        if fails is None:
            continue
        last = case
        acc.case(case, nontrivial=max(case['sizes']) >= 2)
        if fails:
            acc.violate(case, {'kind': 'estimated-total', 'estimator': case['estimator'], 'qkind': '+'.join(k for k, _ in case['kinds']),
                               'size': max(case['sizes'])}, '%s: %s' % (case, '; '.join(fails[:3])))
    if last:
        acc.sample(last)
    return acc


def replay(case):
    acc = Acc()
    if case.get('history'):
        fails = history_case(acc, case['warm'], case['engines'], case['totals'])
        for f in fails:
            print(f)
        return [{'key': {'kind': 'total-history'}, 'msg': '; '.join(fails[:4])}] if fails else []
    if 'supplied' in case:
        fails = supplied_case(acc, case['supplied'], case['engine'])
    else:
        fails = run_case(acc, case) or []
    for f in fails:
        print(f)
    return [{'key': {'kind': 'total'}, 'msg': '; '.join(fails[:4])}] if fails else []
