"""C01 - exact inference returns the true marginals of the product distribution.

E1 x E4: every labelled graph (<=4 / <=5 attributes) x clique presentations x
size patterns x every elimination order x every linear extension of the message
dependency order x six potential value classes; oracle = explicit joint."""
import itertools
import zlib

import numpy as np

from ..core import Acc
from .. import structs as S
from .. import oracle as O

PROPERTY = 'C01'
LEVEL = 'model_checking'
DESIGN_REF = 'DESIGN.md section 5 / C01'
TECHNIQUE = ('exhaustive enumeration of model structures x elimination orders x all message schedules (linear extensions '
             'of the dependency order, installed in model.message_order) on the real belief_propagation; brute-force joint oracle')
RULE = ('case = (graph, presentation, sizes, elimination order, schedule, value class), plus call histories (3 calls on one model object with the factor attribute orders none/all/odd/even reversed and new values per call); graphs: all labelled graphs on <=k '
        'attributes; orders: None, int, all permutations; schedules: every linear extension of the message dependency order of '
        'each distinct tree (generated independently of mp_order); non-trivial = model has >= 2 cliques; distinct = digest of '
        '(clique list, order, schedule, value class). states = distinct down-sets of the dependency order visited, '
        'transitions = message sends performed by the real BP runs. All 1024 graphs on 5 attributes are run twice: sizes (2,3,2,2,3) and (2,36,2,36,2) (separator tables beyond 1000 cells).')
LEVEL_TEXT = ('All executions of the real two-pass message passing are enumerated within the stated bounds: every structure, '
              'every elimination order and, per distinct junction tree, every dependency-respecting message schedule; each '
              'returned clique marginal is compared with the brute-force marginal of the normalised product. This is stateless '
              'model checking of the schedule dimension combined with small-scope enumeration of structures.')
LEVEL_NOTE = ('Potential values come from a finite alphabet of six value classes (generic, x1000, +-1e4 constants, -inf cells, '
              '-inf slice, single live cell) seeded by VERIF_SEED; structures bounded by 4 (quick) / 5 (thorough) attributes; '
              'schedules for trees with > 4 nodes are capped to three representative extensions (reported in bounds).')
ASSUMPTIONS = ['precondition: at least one joint cell has a finite potential sum (cases violating it are skipped and counted)',
               'comparison tolerance rtol 1e-7, atol 1e-9*total']

VCLASSES_QUICK = ['generic', 'x1000', 'shift', 'neginf-cell', 'compensated', 'neginf-shift']
VCLASSES_ALL = ['generic', 'x1000', 'shift', 'neginf-cell', 'neginf-slice', 'single-live', 'compensated', 'neginf-shift']
TOTALS = [1.0, 0.5, 100.0]


def hashseeds(tier):
    return [0] if tier == 'quick' else [0, 1, 2, 3]


def bounds(tier):
    if tier == 'quick':
        return {'attributes': '4 (all orders) + all 1024 graphs on 5 attributes with 6 orders (edges presentation, generic values)', 'orders': 'None,int,all 24 permutations', 'schedules': 'all linear extensions (trees <= 4 nodes)',
                'value_classes': VCLASSES_QUICK, 'presentations': S.PRESENTATIONS, 'size_patterns': 2}
    return {'attributes_full': 4, 'attributes_5': 'all 1024 graphs x 122 orders x presentations edges/maximal x 3 value classes (hash seed 0 only)',
            'schedules': 'all linear extensions for trees <= 4 nodes; library order / reversed tie-break / leaves-first for 5-node trees',
            'value_classes': VCLASSES_ALL, 'presentations': S.PRESENTATIONS, 'size_patterns': 2, 'hashseeds': 4}


def jobs(tier, seed):
    import os
    out = []
    vcl = VCLASSES_QUICK if tier == 'quick' else VCLASSES_ALL
    for k in range(1, 5):
        npairs = k * (k - 1) // 2
        masks = list(range(1 << npairs))
        for i in range(0, len(masks), 4):
            out.append({'k': k, 'masks': masks[i:i + 4], 'pres': S.PRESENTATIONS, 'vclasses': vcl, 'seed': seed})
    if tier == 'quick':
        # all 1024 graphs on 5 attributes (chordless 5-cycles need fill-in between fill-in neighbours) with a small order menu
        masks = list(range(1 << 10))
        for i in range(0, len(masks), 64):
            out.append({'k': 5, 'masks': masks[i:i + 64], 'pres': ['edges'], 'vclasses': ['generic'], 'seed': seed, 'sizes': ['main'], 'orders': 'some'})
    # the same 1024 graphs with two attributes of size 36 (tables and separators beyond 1000 cells): anything in the tree construction
    # or the message schedule that depends on table *sizes* rather than on the structure alone
    masks = list(range(1 << 10))
    for i in range(0, len(masks), 32):
        out.append({'k': 5, 'masks': masks[i:i + 32], 'pres': ['edges'], 'vclasses': ['generic'], 'seed': seed, 'sizes': ['big'], 'orders': 'some'})
    if tier == 'thorough' and os.environ.get('PYTHONHASHSEED', '0') == '0':
        masks = list(range(1 << 10))
        for i in range(0, len(masks), 8):
            out.append({'k': 5, 'masks': masks[i:i + 8], 'pres': ['edges', 'maximal'],
                        'vclasses': ['generic', 'x1000', 'neginf-cell'], 'seed': seed, 'sizes': ['main']})
    return out


# ---------------------------------------------------------------------------
def input_potentials(attrs, sizes, cliques, vclass, rngseed):
    """one array per distinct input clique tuple; returns list of (clique, array) and, for 'shift', the unshifted list"""
    rng = np.random.RandomState(rngseed % (2 ** 31))
    uniq = []
    for c in cliques:
        if tuple(c) not in uniq:
            uniq.append(tuple(c))
    base = []
    for c in uniq:
        shp = [sizes[attrs.index(a)] for a in c]
        base.append((c, rng.randn(*shp)))
    if vclass == 'generic':
        return base, None
    if vclass == 'x1000':
        return [(c, a * 1000.0) for c, a in base], None
    if vclass == 'shift':
        return [(c, a + (1e4 if i % 2 == 0 else -1e4)) for i, (c, a) in enumerate(base)], base
    if vclass == 'compensated':
        return S.compensate(attrs, sizes, base), base   # must equal the distribution of the uncompensated potentials
    out = []
    for i, (c, a) in enumerate(base):
        a = a.copy()
        if vclass in ('neginf-cell', 'neginf-shift'):
            flat = a.reshape(-1)
            flat[(i * 5 + 1) % flat.size] = -np.inf
        elif vclass == 'neginf-slice':
            if i == 0 or i == len(base) - 1:
                sl = [slice(None)] * a.ndim
                sl[-1] = a.shape[-1] - 1
                if a.shape[-1] > 1:
                    a[tuple(sl)] = -np.inf
        elif vclass == 'single-live':
            keep = a.reshape(-1)[0]
            a[...] = -np.inf
            a.reshape(-1)[0] = keep
        out.append((c, a))
    if vclass == 'neginf-shift':
        # structural zeros together with constants of -5000 / +3000 per potential: the zero cells stay zero, the rest is unchanged
        return [(c, a + (-5000.0 if i % 2 == 0 else 3000.0)) for i, (c, a) in enumerate(out)], out
    return out, None


def model_potentials(model, attrs, sizes, in_pots, permute=False):
    """assign every input potential to the first model clique that contains it (own expansion, by name)"""
    from mbi import Factor, CliqueVector, Domain
    arrs = {}
    for cl in model.cliques:
        arrs[cl] = np.zeros([sizes[attrs.index(a)] for a in cl])
    for c, a in in_pots:
        tgt = next(cl for cl in model.cliques if set(c) <= set(cl))
        idx = np.indices(arrs[tgt].shape)
        sel = tuple(idx[tgt.index(x)] for x in c)
        arrs[tgt] = arrs[tgt] + a[sel]
    dom = Domain(attrs, sizes)
    if permute:
        # same parameters, but each factor lists its attributes in reversed order (factors are addressed by name)
        out = {}
        for i, cl in enumerate(model.cliques):   # every second factor reversed: senders and receivers of messages disagree on the order
            if permute == 'all' or i % 2 == (0 if permute == 'even' else 1):
                out[cl] = Factor(dom.project(tuple(reversed(cl))), np.ascontiguousarray(np.transpose(arrs[cl])))
            else:
                out[cl] = Factor(dom.project(cl), arrs[cl])
        return CliqueVector(out)
    return CliqueVector({cl: Factor(dom.project(cl), arrs[cl]) for cl in model.cliques})


def message_deps(model):
    edges = list(model.junction_tree.tree.edges())
    msgs = [(a, b) for a, b in edges] + [(b, a) for a, b in edges]
    nb = {}
    for a, b in edges:
        nb.setdefault(a, set()).add(b)
        nb.setdefault(b, set()).add(a)
    deps = {(i, j): {(k, i) for k in nb[i] if k != j} for (i, j) in msgs}
    return msgs, deps


def compare(acc, case, key, model, marg, joint, attrs, total, what):
    """every clique marginal vs the explicit joint"""
    for cl in model.cliques:
        got = marg[cl]
        if set(got.domain.attrs) != set(cl) or len(got.domain.attrs) != len(cl):
            acc.violate(case, dict(key, kind='wrong-axes'), '%s: marginal for %r has axes %r' % (what, cl, got.domain.attrs))
            return False
        ref = O.marginal(joint, attrs, tuple(got.domain.attrs))   # by name, in the order the answer declares
        if not O.close(got.values, ref, 1e-7, 1e-9 * total):
            acc.violate(case, dict(key, kind='marginal-mismatch'),
                        '%s: clique %r marginal differs from brute force: max abs diff %.3g (total %g); finite=%s\n got %s\n ref %s' % (
                            what, cl, O.maxdiff(got.values, ref), total, bool(np.all(np.isfinite(got.values))),
                            np.array2string(np.asarray(got.values).flatten()[:8], precision=6),
                            np.array2string(ref.flatten()[:8], precision=6)))
            return False
    return True


def some_schedules(model, msgs, deps):
    """three representative dependency-respecting schedules for larger trees"""
    lib = list(model.junction_tree.mp_order())
    out = [lib]
    for rev in (False, True):
        done, seq = set(), []
        pool = sorted(msgs, reverse=rev)
        while len(seq) < len(msgs):
            for m in pool:
                if m not in done and deps[m] <= done:
                    done.add(m)
                    seq.append(m)
                    break
        out.append(seq)
    return out


def explore_structure(acc, k, mask, pres, sizes_name, vclasses, seed, only=None, orders_mode='all', naming='letters'):
    """all orders x schedules x value classes for one (graph, presentation, size pattern).
    `only` restricts to a single (order, vclass, schedule) for replay."""
    from mbi import Domain, GraphicalModel
    attrs = S.ATTRS[:k]
    sizes = {'main': S.SIZES_MAIN, 'one': S.SIZES_ONE, 'big': S.SIZES_BIG}[sizes_name][:k]
    edges = S.graph_by_mask(k, mask)
    cliques = S.rename(S.present(attrs, edges, pres), naming)
    attrs = S.rename(attrs, naming)   # domain order stays, names no longer sort in domain order
    dom = Domain(attrs, sizes)
    rngseed = zlib.crc32(repr((seed, k, mask, pres, sizes_name)).encode())
    refs = {}
    for vc in vclasses:
        total = TOTALS[(mask + VCLASSES_ALL.index(vc)) % 3]
        pots, unshifted = input_potentials(attrs, sizes, cliques, vc, rngseed)
        joint = O.explicit_joint(attrs, sizes, pots, total)
        if joint is None:
            acc.outcome('precondition-no-finite-cell')
            continue
        if unshifted is not None:
            j2 = O.explicit_joint(attrs, sizes, unshifted, total)
            assert O.close(joint, j2, 1e-6, 1e-9 * total), 'oracle self-check: constant shift changed the reference'
            joint = j2  # the result must equal the UNSHIFTED distribution
        refs[vc] = (pots, joint, total)
    if orders_mode == 'some' and only is None:
        orders = [None, 2, list(attrs), list(reversed(attrs)), attrs[2:] + attrs[:2], attrs[1::2] + attrs[0::2]]
    else:
        orders = [None, 2] + [list(p) for p in itertools.permutations(attrs)]
    seen_trees = set()
    for order in orders:
        if only is not None and only['order'] != order:
            continue
        if isinstance(order, int):
            np.random.seed(seed + 1)
        model = GraphicalModel(dom, [tuple(c) for c in cliques], total=1.0, elimination_order=order)
        msgs, deps = message_deps(model)
        treekey = (tuple(model.cliques), tuple(sorted(map(tuple, map(sorted, model.junction_tree.tree.edges())))))
        # schedules: library order always; all linear extensions once per distinct tree
        scheds = [None]
        if treekey not in seen_trees or only is not None:
            seen_trees.add(treekey)
            if len(model.cliques) <= 4:
                exts, nstates, ntrans = S.linear_extensions(msgs, deps)
                acc.states += nstates
            else:
                exts = some_schedules(model, msgs, deps)
                acc.states += len(msgs) + 1
                acc.cap('trees with >4 nodes: 3 representative schedules instead of all linear extensions')
            scheds = [None] + exts
        else:
            acc.states += 1
        lib_order = list(model.message_order)
        for vc in vclasses:
            if vc not in refs:
                continue
            if only is not None and only['vclass'] != vc:
                continue
            pots, joint, total = refs[vc]
            model.total = total
            mpots = model_potentials(model, attrs, sizes, pots, permute=(naming == 'scrambled'))
            for sc in scheds:
                if only is not None and only.get('schedule') != (None if sc is None else [[list(a), list(b)] for a, b in sc]):
                    continue
                model.message_order = lib_order if sc is None else list(sc)
                case = {'k': k, 'mask': mask, 'pres': pres, 'sizes': sizes_name, 'order': order, 'vclass': vc, 'naming': naming,
                        'schedule': None if sc is None else [[list(a), list(b)] for a, b in sc], 'seed': seed}
                acc.case({'c': cliques, 's': sizes_name, 'o': order, 'v': vc, 'm': case['schedule'], 'n': naming},
                         nontrivial=len(model.cliques) >= 2)
                acc.traces += 1
                acc.transitions += len(msgs)
                snap = [np.array(f.values, copy=True) for f in mpots.values()] if sc is None else None
                marg = model.belief_propagation(mpots)
                ok = compare(acc, case, {'vclass': vc, 'sched': 'library' if sc is None else 'permuted'},
                             model, marg, joint, attrs, total, 'belief_propagation')
                if snap is not None and any(not np.array_equal(a, np.asarray(f.values), equal_nan=True) for a, f in zip(snap, mpots.values())):
                    acc.violate(case, {'kind': 'potentials-mutated', 'vclass': vc}, 'belief_propagation modified the potentials it was given')
                    mpots = model_potentials(model, attrs, sizes, pots, permute=(naming == 'scrambled'))
                acc.outcome('%s:%s' % (vc, 'ok' if ok else 'FAIL'))
                # logZ path must be finite and consistent with the reference normaliser
                if ok and sc is None:
                    lz = model.belief_propagation(mpots, logZ=True)
                    lj = O.explicit_logjoint(attrs, sizes, [(tuple(f.domain.attrs), f.values) for f in mpots.values()])
                    m = lj.max()
                    ref_lz = m + np.log(np.exp(lj - m).sum())
                    if not (np.isfinite(lz) and abs(lz - ref_lz) <= 1e-7 * max(1.0, abs(ref_lz))):
                        acc.violate(case, {'kind': 'logZ', 'vclass': vc}, 'logZ=%r but brute force gives %r' % (lz, ref_lz))
            model.message_order = lib_order
    return cliques


HISTORIES = [['none', 'all', 'odd'], ['odd', 'even', 'none']]


def explore_history(acc, k, mask, pres, seed, only=None):
    """E3: several belief_propagation calls on ONE model object whose potentials name the clique attributes in a different order from
    call to call (same parameters, same shapes where the attribute sizes coincide); every call must return the true marginals"""
    from mbi import Domain, GraphicalModel
    attrs = S.ATTRS[:k]
    sizes = S.SIZES_MAIN[:k]
    cliques = S.present(attrs, S.graph_by_mask(k, mask), pres)
    dom = Domain(attrs, sizes)
    rngseed = zlib.crc32(repr((seed, k, mask, pres, 'history')).encode())
    orders = [None, list(reversed(attrs)), attrs[1::2] + attrs[0::2]]
    for oi, order in enumerate(orders):
        for hi, hist in enumerate(HISTORIES):
            if only is not None and (only['order'] != order or only['hist'] != hist):
                continue
            total = TOTALS[(mask + hi) % 3]
            model = GraphicalModel(dom, [tuple(c) for c in cliques], total=total, elimination_order=order)
            case = {'mode': 'history', 'k': k, 'mask': mask, 'pres': pres, 'order': order, 'hist': hist, 'seed': seed}
            acc.case({'c': cliques, 'o': order, 'h': hist}, nontrivial=len(model.cliques) >= 2)
            acc.traces += 1
            acc.states += len(hist) + 1
            ok = True
            for step, mode in enumerate(hist):
                # new parameter values on every call: nothing of an earlier call may be reused
                pots, _ = input_potentials(attrs, sizes, cliques, 'generic', rngseed + step)
                joint = O.explicit_joint(attrs, sizes, pots, total)
                mpots = model_potentials(model, attrs, sizes, pots, permute=(False if mode == 'none' else mode))
                marg = model.belief_propagation(mpots)
                acc.transitions += 2 * max(0, len(model.cliques) - 1)
                ok = compare(acc, case, {'vclass': 'generic', 'sched': 'history'}, model, marg, joint, attrs, total,
                             'belief_propagation call %d of %r on one model (factor orders: %s)' % (step + 1, hist, mode)) and ok
                if not ok:
                    break
            acc.outcome('history:%s' % ('ok' if ok else 'FAIL'))


def run_job(job):
    acc = Acc()
    k = job['k']
    for mask in job['masks']:
        for pres in job['pres']:
            edges = S.graph_by_mask(k, mask)
            if not edges and pres not in ('edges', 'singletons', 'nested'):
                continue
            for sizes_name in job.get('sizes', ['main', 'one']):
                if sizes_name == 'one' and pres not in ('edges', 'maximal', 'nested'):
                    continue
                cl = explore_structure(acc, k, mask, pres, sizes_name, job['vclasses'], job['seed'], orders_mode=job.get('orders', 'all'))
                if sizes_name == 'main' and pres in ('edges', 'maximal') and k <= 4:
                    explore_structure(acc, k, mask, pres, sizes_name, ['generic', 'neginf-cell'], job['seed'], orders_mode='some', naming='scrambled')
                    explore_history(acc, k, mask, pres, job['seed'])
        acc.sample({'k': k, 'edges': S.graph_by_mask(k, mask), 'presentation': 'nested', 'cliques': S.present(S.ATTRS[:k], S.graph_by_mask(k, mask), 'nested'),
                    'orders': 'None, 2, all permutations', 'value_classes': job['vclasses']})
    return acc


def replay(case):
    acc = Acc()
    if case.get('mode') == 'history':
        explore_history(acc, case['k'], case['mask'], case['pres'], case['seed'], only=case)
    else:
        explore_structure(acc, case['k'], case['mask'], case['pres'], case['sizes'], [case['vclass']], case['seed'], only=case, naming=case.get('naming', 'letters'))
    for v in acc.violations:
        print(v['msg'])
    return acc.violations
