"""C14 - factor algebra is addressed by attribute name, never by position.

E1: all ordered attribute tuples (and all ordered pairs of them) x every operation
of the alphabet; oracle = dict-of-assignments evaluator."""
import itertools
import math

import numpy as np

from ..core import Acc
from .. import structs as S

PROPERTY = 'C14'
LEVEL = 'exploration'
DESIGN_REF = 'DESIGN.md section 5 / C14'
TECHNIQUE = 'exhaustive enumeration of ordered attribute tuples / tuple pairs x operation alphabet on the real Factor and CliqueVector; assignment-level reference evaluator'
RULE = ('case = (size pattern, ordered tuple t1, ordered tuple t2 or unary argument, operation, value class); tuples: every ordered '
        'non-empty tuple of distinct attributes over 3 (quick) / 4 (thorough) attributes; values: distinct primes per cell (finite), '
        'positive copy for / and log, copy with -inf entries for log-space operations; non-trivial = operands overlap in at '
        'least one attribute or have different axis orders; query / overwrite (out=, in-place operators, raw assignment) / query histories on one factor; distinct = digest of the case.')
LEVEL_TEXT = ('Complete enumeration of operand shapes (ordered attribute tuples, sizes incl. 1, every overlap pattern) for every listed '
              'operation, each result compared cell by cell with a scalar evaluator addressed by attribute name. The operand space of '
              'the property is finite once sizes are fixed, so this decides the property within the size bound.')
LEVEL_NOTE = ('Sizes fixed to two patterns ((2,3,1[,2]) and (2,2,3[,2])); cell values are distinct primes so that any axis mix-up '
              'changes some cell; in-place operations are exercised on owning arrays only (expand() returns a read-only broadcast view).')
ASSUMPTIONS = ['x - (-inf) is defined by the implementation as x; subtraction is therefore only checked on finite operands',
               'scalar multiplication/division pass through nan_to_num; only finite operands are used there']

PATTERNS = {'p1': [2, 3, 1, 2], 'p2': [2, 2, 3, 2]}


def bounds(tier):
    return {'attributes': 3 if tier == 'quick' else 4, 'size_patterns': PATTERNS, 'pairs': 'all ordered pairs of ordered non-empty tuples'}


def tuples(k):
    return list(S.ordered_subtuples(S.ATTRS[:k], minlen=1))


def jobs(tier, seed):
    k = 3 if tier == 'quick' else 4
    out = []
    for pat in PATTERNS:
        for i, t in enumerate(tuples(k)):
            out.append({'pat': pat, 'k': k, 't1': list(t), 'seed': seed})
        out.append({'pat': pat, 'k': k, 'cliquevector': True, 'seed': seed})
        for i, t in enumerate(tuples(k)):
            if len(t) >= 2 or tier == 'thorough':
                out.append({'pat': pat, 'k': k, 't1': list(t), 'seed': seed, 'names': 'ints'})
    return out


def primes():
    n = 2
    while True:
        if all(n % d for d in range(2, int(math.isqrt(n)) + 1)):
            yield n
        n += 1


PR = list(itertools.islice(primes(), 400))


def mk(dom, t, offset, kind='finite'):
    """Factor over ordered tuple t with distinct prime values"""
    from mbi import Factor
    d = dom.project(t)
    n = d.size()
    vals = np.array(PR[offset:offset + n], dtype=float)
    if kind == 'signed':
        vals = vals * np.where(np.arange(n) % 2 == 0, 1.0, -1.0) / 7.0
    elif kind == 'neginf':
        vals = vals / 7.0
        vals[(offset + 1) % n] = -np.inf
        if n > 2:
            vals[(offset + 3) % n] = -np.inf
    elif kind == 'positive':
        vals = vals / 3.0
    elif kind == 'tiny':
        # strictly positive entries far below machine epsilon (small probabilities of a normalised table)
        vals = vals / 3.0 * np.power(10.0, -(17.0 + 45.0 * (np.arange(n) % 5)))
    elif kind == 'wide':
        # slices of very different scale: finite entries spread over +-1500 (far beyond the range of exp)
        vals = vals / 7.0 + np.where(np.arange(n) % 3 == 0, 1500.0, np.where(np.arange(n) % 3 == 1, -1400.0, 0.0))
    return Factor(d, vals.copy())


def table(f):
    """{frozenset((attr, value)) : cell value} read back BY NAME from the factor"""
    attrs = list(f.domain.attrs)
    shape = [f.domain.config[a] for a in attrs]
    vals = np.asarray(f.values)
    assert vals.shape == tuple(shape), 'values shape %r does not match domain %r' % (vals.shape, f.domain)
    out = {}
    for idx in itertools.product(*[range(s) for s in shape]):
        out[frozenset(zip(attrs, idx))] = float(vals[idx])
    return out


def restrict(asg, attrs):
    return frozenset((a, v) for a, v in asg if a in attrs)


def same(x, y, rtol=1e-12):
    if x == y:
        return True
    if math.isnan(x) or math.isnan(y) or math.isinf(x) or math.isinf(y):
        return False
    return abs(x - y) <= rtol * max(abs(x), abs(y)) + 1e-300


def expect_binary(t1, t2, T1, T2, dom, fn):
    attrs = list(dict.fromkeys(list(t1) + list(t2)))
    exp = {}
    for idx in itertools.product(*[range(dom.config[a]) for a in attrs]):
        asg = frozenset(zip(attrs, idx))
        exp[asg] = fn(T1[restrict(asg, t1)], T2[restrict(asg, t2)])
    return set(attrs), exp


def cmp_tables(got, exp_attrs, exp, what, fails, rtol=1e-12):
    if set(got.domain.attrs) != set(exp_attrs) or len(got.domain.attrs) != len(exp_attrs):
        fails.append('%s: result attributes %r, expected %r' % (what, got.domain.attrs, sorted(exp_attrs)))
        return
    try:
        G = table(got)
    except AssertionError as e:
        fails.append('%s: %s' % (what, e))
        return
    for asg, v in exp.items():
        if not same(G[asg], v, rtol):
            fails.append('%s: at %s got %r expected %r' % (what, dict(sorted(asg)), G[asg], v))
            return


def logaddexp(a, b):
    if a == -math.inf:
        return b
    if b == -math.inf:
        return a
    m = max(a, b)
    return m + math.log(math.exp(a - m) + math.exp(b - m))


def lse(vals):
    m = max(vals)
    if m == -math.inf:
        return -math.inf
    return m + math.log(sum(math.exp(v - m) for v in vals))


def scalar_queries(o, vals, what, fails, rtol=1e-12):
    """the whole-table reductions of o must describe its CURRENT contents (vals: the expected cell values)"""
    vals = list(vals)
    exp = {'sum': math.fsum(vals), 'max': max(vals)}
    if all(v < 700 for v in vals):
        exp['logsumexp'] = lse(vals)
    for nm, e in exp.items():
        g = getattr(o, nm)()
        if not same(float(g), e, rtol):
            fails.append('%s() %s gives %r, the table now holds %r' % (nm, what, float(g), e))
    ga = o.logsumexp(tuple(o.domain.attrs)) if 'logsumexp' in exp else None
    if ga is not None and not same(float(ga.values), exp['logsumexp'], rtol):
        fails.append('logsumexp(all attrs) %s gives %r, expected %r' % (what, float(ga.values), exp['logsumexp']))


def queried(domain, fill):
    """a destination factor that has already answered every whole-table query on other contents"""
    from mbi import Factor
    o = Factor(domain, np.full(domain.shape, float(fill)))
    for nm in ('sum', 'max', 'logsumexp'):
        getattr(o, nm)()
    o.logsumexp(tuple(domain.attrs)); o.sum(tuple(domain.attrs)); o.datavector()
    return o


def snapshot(f):
    return (tuple(f.domain.attrs), np.array(f.values, copy=True))


def unchanged(f, snap):
    return tuple(f.domain.attrs) == snap[0] and np.array_equal(np.asarray(f.values), snap[1], equal_nan=True)


def binary_cases(acc, dom, pat, t1, t2, seed):
    fails = []
    sub = set(t2) <= set(t1)
    for kind in ('signed', 'neginf', 'positive', 'tiny'):
        f1, f2 = mk(dom, t1, 0, kind), mk(dom, t2, 60, kind)
        T1, T2 = table(f1), table(f2)
        s1, s2 = snapshot(f1), snapshot(f2)
        ops = []
        if kind == 'signed':
            ops = [('+', lambda a, b: a + b, lambda: f1 + f2), ('-', lambda a, b: a - b, lambda: f1 - f2),
                   ('*', lambda a, b: a * b, lambda: f1 * f2), ('logaddexp', logaddexp, lambda: f1.logaddexp(f2))]
        elif kind == 'neginf':
            ops = [('+', lambda a, b: a + b, lambda: f1 + f2), ('logaddexp', logaddexp, lambda: f1.logaddexp(f2))]
        elif kind == 'positive':
            ops = [('*', lambda a, b: a * b, lambda: f1 * f2)]
            if sub:
                ops.append(('/', lambda a, b: a / b, lambda: f1 / f2))
        elif kind == 'tiny' and sub:
            ops = [('/', lambda a, b: a / b, lambda: f1 / f2)]
        for name, fn, call in ops:
            ea, exp = expect_binary(t1, t2, T1, T2, dom, fn)
            got = call()
            cmp_tables(got, ea, exp, '%s %s %s [%s]' % (t1, name, t2, kind), fails, 1e-12)
            if not (unchanged(f1, s1) and unchanged(f2, s2)):
                fails.append('%s %s %s mutated an operand' % (t1, name, t2))
                f1, f2 = mk(dom, t1, 0, kind), mk(dom, t2, 60, kind)
            acc.evals += 1
        if sub and kind in ('signed', 'neginf'):
            for name, fn in (('+=', lambda a, b: a + b), ('*=', lambda a, b: a * b)):
                if kind == 'neginf' and name == '*=':
                    continue
                g1, g2 = mk(dom, t1, 0, kind), mk(dom, t2, 60, kind)
                sg2 = snapshot(g2)
                ea, exp = expect_binary(t1, t2, table(g1), table(g2), dom, fn)
                h = g1
                if name == '+=':
                    h += g2
                else:
                    h *= g2
                if h is not g1:
                    fails.append('%s %s %s did not return the left operand' % (t1, name, t2))
                cmp_tables(g1, ea, exp, '%s %s %s [%s]' % (t1, name, t2, kind), fails)
                if tuple(g1.domain.attrs) != tuple(t1):
                    fails.append('%s %s %s changed the attribute order of the left operand to %r' % (t1, name, t2, g1.domain.attrs))
                if not unchanged(g2, sg2):
                    fails.append('%s %s %s mutated the right operand' % (t1, name, t2))
                acc.evals += 1
    return fails


def unary_cases(acc, dom, pat, t1, k, names=None):
    from mbi import Factor
    fails = []
    attrs_all = list(names) if names is not None else S.ATTRS[:k]
    for kind in ('signed', 'neginf', 'positive', 'wide'):
        f = mk(dom, t1, 7, kind)
        T = table(f)
        s = snapshot(f)
        # scalar forms (finite operands only)
        if kind == 'signed':
            for name, fn, call in [('f+2.5', lambda a: a + 2.5, lambda: f + 2.5), ('2.5+f', lambda a: 2.5 + a, lambda: 2.5 + f),
                                   ('f*2.5', lambda a: a * 2.5, lambda: f * 2.5), ('2.5*f', lambda a: 2.5 * a, lambda: 2.5 * f),
                                   ('f-2.5', lambda a: a - 2.5, lambda: f - 2.5), ('f/2.5', lambda a: a / 2.5, lambda: f / 2.5)]:
                got = call()
                cmp_tables(got, set(t1), {a: fn(v) for a, v in T.items()}, '%s on %s' % (name, t1), fails)
                acc.evals += 1
            for name in ('+=2.5', '*=2.5'):
                g = mk(dom, t1, 7, kind)
                h = g
                if name == '+=2.5':
                    h += 2.5
                    fn = lambda a: a + 2.5
                else:
                    h *= 2.5
                    fn = lambda a: a * 2.5
                if h is not g:
                    fails.append('%s did not return self' % name)
                cmp_tables(g, set(t1), {a: fn(v) for a, v in T.items()}, '%s on %s' % (name, t1), fails)
                acc.evals += 1
        # aggregations over every subset of axes, given in both orders
        aggs = [('sum', lambda v: sum(v), lambda at: f.sum(at)), ('max', max, lambda at: f.max(at))]
        if kind == 'wide':
            aggs = [('max', max, lambda at: f.max(at))]
        if kind != 'positive':
            aggs.append(('logsumexp', lse, lambda at: f.logsumexp(at)))
        for name, red, call in aggs:
            if name == 'sum' and kind == 'neginf':
                continue
            for r in range(0, len(t1) + 1):
                for subset in itertools.permutations(t1, r):
                    keep = [a for a in t1 if a not in subset]
                    groups = {}
                    for asg, v in T.items():
                        groups.setdefault(restrict(asg, keep), []).append(v)
                    exp = {a: red(vs) for a, vs in groups.items()}
                    got = call(list(subset))
                    if r == len(t1):
                        pass
                    cmp_tables(got, set(keep), exp, '%s(%r) on %s [%s]' % (name, subset, t1, kind), fails, 1e-11)
                    acc.evals += 1
            tot = call(None)
            if not same(float(tot), red(list(T.values())), 1e-11):
                fails.append('%s() on %s: %r expected %r' % (name, t1, tot, red(list(T.values()))))
        # project onto every ordered sub-tuple, both aggregations
        for agg in (['sum'] if kind == 'positive' else ['logsumexp'] if kind in ('neginf', 'wide') else ['sum', 'logsumexp']):
            red = (lambda v: sum(v)) if agg == 'sum' else lse
            for r in range(0, len(t1) + 1):
                for tgt in itertools.permutations(t1, r):
                    groups = {}
                    for asg, v in T.items():
                        groups.setdefault(restrict(asg, tgt), []).append(v)
                    exp = {a: red(vs) for a, vs in groups.items()}
                    got = f.project(list(tgt), agg=agg) if agg != 'sum' else f.project(tgt)
                    if tuple(got.domain.attrs) != tuple(tgt):
                        fails.append('project(%r) on %s returned axes %r' % (tgt, t1, got.domain.attrs))
                    cmp_tables(got, set(tgt), exp, 'project(%r,%s) on %s' % (tgt, agg, t1), fails, 1e-11)
                    acc.evals += 1
        # transpose to every permutation
        for perm in itertools.permutations(t1):
            got = f.transpose(perm)
            if tuple(got.domain.attrs) != tuple(perm):
                fails.append('transpose(%r) on %s returned axes %r' % (perm, t1, got.domain.attrs))
            cmp_tables(got, set(t1), T, 'transpose(%r) on %s' % (perm, t1), fails)
            acc.evals += 1
        if kind == 'signed':
            # condition on every evidence dict
            for r in range(1, len(t1) + 1):
                for ev_attrs in itertools.combinations(t1, r):
                    for vals in itertools.product(*[range(dom.config[a]) for a in ev_attrs]):
                        ev = dict(zip(ev_attrs, vals))
                        keep = [a for a in t1 if a not in ev]
                        exp = {restrict(asg, keep): v for asg, v in T.items() if all((a, ev[a]) in asg for a in ev)}
                        got = f.condition(ev)
                        if tuple(got.domain.attrs) != tuple(keep):
                            fails.append('condition(%r) on %s returned axes %r' % (ev, t1, got.domain.attrs))
                        cmp_tables(got, set(keep), exp, 'condition(%r) on %s' % (ev, t1), fails)
                        acc.evals += 1
            # expand to every ordered super-tuple
            rest = [a for a in attrs_all if a not in t1]
            for r in range(0, len(rest) + 1):
                for extra in itertools.combinations(rest, r):
                    for sup in itertools.permutations(list(t1) + list(extra)):
                        got = f.expand(dom.project(sup))
                        if tuple(got.domain.attrs) != tuple(sup):
                            fails.append('expand(%r) on %s returned axes %r' % (sup, t1, got.domain.attrs))
                        ea, exp = expect_binary(t1, sup, T, {frozenset(zip(sup, idx)): 0.0 for idx in itertools.product(*[range(dom.config[a]) for a in sup])}, dom, lambda a, b: a)
                        cmp_tables(got, ea, exp, 'expand(%r) on %s' % (sup, t1), fails)
                        acc.evals += 1
        # exp / log / copy and their out= forms
        if kind == 'wide':
            continue
        if kind != 'positive':
            got = f.exp()
            cmp_tables(got, set(t1), {a: math.exp(v) if v > -math.inf else 0.0 for a, v in T.items()}, 'exp on %s' % (t1,), fails, 1e-12)
            o = Factor.zeros(f.domain)
            r_ = f.exp(out=o)
            if r_ is not o:
                fails.append('exp(out=) did not return out')
            cmp_tables(o, set(t1), {a: math.exp(v) if v > -math.inf else 0.0 for a, v in T.items()}, 'exp(out=) on %s' % (t1,), fails, 1e-12)
            if kind == 'signed':
                oq = queried(f.domain, 0.25)
                f.exp(out=oq)
                scalar_queries(oq, [math.exp(v) for v in T.values()], 'after exp(out=) into a factor that was queried before', fails)
                fs = f.copy()
                for nm in ('sum', 'max', 'logsumexp'):
                    getattr(fs, nm)()
                fs.exp(out=fs)
                scalar_queries(fs, [math.exp(v) for v in T.values()], 'after exp(out=self) on a factor that was queried before', fails)
                acc.evals += 8
        else:
            got = f.log()
            cmp_tables(got, set(t1), {a: math.log(v) for a, v in T.items()}, 'log on %s' % (t1,), fails, 1e-12)
            o = Factor.zeros(f.domain)
            r_ = f.log(out=o)
            if r_ is not o:
                fails.append('log(out=) did not return out')
            cmp_tables(o, set(t1), {a: math.log(v) for a, v in T.items()}, 'log(out=) on %s' % (t1,), fails, 1e-12)
            oq = queried(f.domain, 0.25)
            f.log(out=oq)
            scalar_queries(oq, [math.log(v) for v in T.values()], 'after log(out=) into a factor that was queried before', fails)
            acc.evals += 4
        c = f.copy()
        cmp_tables(c, set(t1), T, 'copy on %s' % (t1,), fails)
        if c.values is f.values or np.shares_memory(c.values, f.values):
            fails.append('copy() shares memory with the original')
        o = Factor.zeros(f.domain)
        f.copy(out=o)
        cmp_tables(o, set(t1), T, 'copy(out=) on %s' % (t1,), fails)
        if kind in ('signed', 'positive'):
            # call histories on ONE object: query, overwrite (out= / in-place operators / item assignment of the array), query again
            oq = queried(f.domain, 0.25)
            f.copy(out=oq)
            scalar_queries(oq, T.values(), 'after copy(out=) into a factor that was queried before', fails)
            oq += 1.5
            scalar_queries(oq, [v + 1.5 for v in T.values()], 'after += 1.5 on a factor that was queried before', fails)
            oq *= 0.5
            scalar_queries(oq, [(v + 1.5) * 0.5 for v in T.values()], 'after *= 0.5 on a factor that was queried before', fails)
            oq += f
            scalar_queries(oq, [(v + 1.5) * 0.5 + v for v in T.values()], 'after += factor on a factor that was queried before', fails)
            oq.values[...] = 2.0
            scalar_queries(oq, [2.0] * len(T), 'after the array was overwritten in place', fails)
            acc.evals += 20
        # the unary operations on a factor whose array is a strided VIEW (as returned by transpose / project in another order)
        if len(t1) >= 2:
            fv = f.transpose(tuple(reversed(t1)))
            ops_v = [('copy', fv.copy(), lambda v: v)]
            if kind in ('signed', 'positive'):
                ops_v += [('*2', fv * 2.0, lambda v: 2.0 * v), ('+1', fv + 1.0, lambda v: v + 1.0)]
            for nm, got_v, fn_v in ops_v:
                cmp_tables(got_v, set(t1), {a: fn_v(v) for a, v in T.items()}, '%s on the transposed view of %s' % (nm, t1), fails)
            ov = Factor.zeros(fv.domain)
            fv.copy(out=ov)
            cmp_tables(ov, set(t1), T, 'copy(out=) on the transposed view of %s' % (t1,), fails)
            dvv = fv.datavector()
            if not np.array_equal(dvv, np.asarray(fv.values).flatten(), equal_nan=True):
                fails.append('datavector() of a transposed view is not its row-major flattening')
            acc.evals += 5
        dv = f.datavector()
        if dv.shape != (f.domain.size(),) or not np.array_equal(dv, np.asarray(f.values).flatten(), equal_nan=True):
            fails.append('datavector() is not the row-major flattening')
        acc.evals += 6
        if not unchanged(f, s):
            fails.append('a pure unary operation mutated its operand %s [%s]' % (t1, kind))
    return fails


def cliquevector_cases(acc, dom, k):
    from mbi import CliqueVector, Factor
    fails = []
    tl = tuples(k)
    fams = [[('A', 'B'), ('B', 'C')], [('B', 'A'), ('C',)], [('C', 'A', 'B')], [('A',), ('B',), ('C', 'B')]]
    if k >= 4:
        fams.append([('A', 'D'), ('D', 'B', 'C')])
    for fam in fams:
        v1 = CliqueVector({cl: mk(dom, cl, 3 + i * 17, 'signed') for i, cl in enumerate(fam)})
        v2 = CliqueVector({cl: mk(dom, cl, 90 + i * 13, 'signed') for i, cl in enumerate(fam)})
        T1 = {cl: table(v1[cl]) for cl in fam}
        T2 = {cl: table(v2[cl]) for cl in fam}
        snaps = {cl: (snapshot(v1[cl]), snapshot(v2[cl])) for cl in fam}
        for name, got, fn in [('+', v1 + v2, lambda a, b: a + b), ('-', v1 - v2, lambda a, b: a - b),
                              ('*3', v1 * 3.0, lambda a, b: a * 3.0), ('3*', 3.0 * v1, lambda a, b: 3.0 * a),
                              ('+1.5', v1 + 1.5, lambda a, b: a + 1.5), ('exp', (v1 * 0.1).exp(), lambda a, b: math.exp(0.1 * a))]:
            if set(got.keys()) != set(fam):
                fails.append('CliqueVector %s: keys %r' % (name, list(got.keys())))
                continue
            for cl in fam:
                cmp_tables(got[cl], set(cl), {a: fn(T1[cl][a], T2[cl][a]) for a in T1[cl]}, 'CliqueVector %s at %r' % (name, cl), fails, 1e-12)
            acc.evals += 1
        vp = CliqueVector({cl: mk(dom, cl, 5 + i * 11, 'positive') for i, cl in enumerate(fam)})
        got = vp.log()
        for cl in fam:
            cmp_tables(got[cl], set(cl), {a: math.log(v) for a, v in table(vp[cl]).items()}, 'CliqueVector log at %r' % (cl,), fails, 1e-12)
        # same keys, but the factors of the second vector are stored with their axes reversed (as after transpose/project)
        v2t = CliqueVector({cl: v2[cl].transpose(tuple(reversed(v2[cl].domain.attrs))) for cl in fam})
        for name, got, fn in [('+t', v1 + v2t, lambda a, b: a + b), ('-t', v1 - v2t, lambda a, b: a - b)]:
            for cl in fam:
                cmp_tables(got[cl], set(cl), {a: fn(T1[cl][a], T2[cl][a]) for a in T1[cl]}, 'CliqueVector %s at %r' % (name, cl), fails, 1e-12)
        edt = sum(T1[cl][a] * T2[cl][a] for cl in fam for a in T1[cl])
        for name, dv in [('dot(transposed other)', v1.dot(v2t)), ('transposed.dot(other)', v2t.dot(v1))]:
            if not same(float(dv), edt, 1e-12):
                fails.append('CliqueVector %s: %r expected %r (factors must be paired by attribute name)' % (name, dv, edt))
        acc.evals += 4
        d = v1.dot(v2)
        ed = sum(T1[cl][a] * T2[cl][a] for cl in fam for a in T1[cl])
        if not same(float(d), ed, 1e-12):
            fails.append('CliqueVector dot: %r expected %r' % (d, ed))
        if v1.size() != sum(dom.size(cl) for cl in fam):
            fails.append('CliqueVector size')
        for cl in fam:
            if not (unchanged(v1[cl], snaps[cl][0]) and unchanged(v2[cl], snaps[cl][1])):
                fails.append('CliqueVector pure operation mutated an operand at %r' % (cl,))
        acc.evals += 3
        # combine: every key of `other` is added into the first containing clique, by name; unknown keys ignored
        for sub in tl:
            tgt = next((cl for cl in fam if set(sub) <= set(cl)), None)
            for built in ('constructor', 'item-assignment'):
                if built == 'constructor':
                    base = CliqueVector({cl: mk(dom, cl, 3 + i * 17, 'signed') for i, cl in enumerate(fam)})
                else:
                    # the same collection populated after construction (v = CliqueVector({}); v[cl] = f)
                    base = CliqueVector({})
                    for i, cl in enumerate(fam):
                        base[cl] = mk(dom, cl, 3 + i * 17, 'signed')
                other = CliqueVector({tuple(sub): mk(dom, sub, 150, 'neginf')})
                To = table(other[tuple(sub)])
                base.combine(other)
                for cl in fam:
                    if cl == tgt:
                        ea, exp = expect_binary(cl, sub, T1[cl], To, dom, lambda a, b: a + b)
                        cmp_tables(base[cl], ea, exp, 'combine(%r) into %r (%s-built)' % (sub, cl, built), fails)
                        if tuple(base[cl].domain.attrs) != tuple(cl):
                            fails.append('combine changed the axis order of %r' % (cl,))
                    else:
                        cmp_tables(base[cl], set(cl), T1[cl], 'combine(%r) must leave %r alone' % (sub, cl), fails)
                acc.evals += 1
        # the second vector holds the same cliques in another insertion order: cliques are paired by key, never by position
        if len(fam) >= 2:
            v2r = CliqueVector({cl: v2[cl] for cl in reversed(fam)})
            for name, got, fn in [('+ (other in reversed insertion order)', v1 + v2r, lambda a, b: a + b), ('- (other in reversed insertion order)', v1 - v2r, lambda a, b: a - b)]:
                if set(got.keys()) != set(fam):
                    fails.append('CliqueVector %s: keys %r' % (name, list(got.keys())))
                    continue
                for cl in fam:
                    if set(got[cl].domain.attrs) != set(cl):
                        fails.append('CliqueVector %s: factor at %r has attributes %r' % (name, cl, got[cl].domain.attrs))
                    else:
                        cmp_tables(got[cl], set(cl), {a: fn(T1[cl][a], T2[cl][a]) for a in T1[cl]}, 'CliqueVector %s at %r' % (name, cl), fails, 1e-12)
            if not same(float(v1.dot(v2r)), ed, 1e-12):
                fails.append('CliqueVector dot with the other vector in reversed insertion order: %r expected %r' % (float(v1.dot(v2r)), ed))
            acc.evals += 3
        # a collection populated by item assignment behaves like the constructor-built one in every operation
        va = CliqueVector({})
        for cl in fam:
            va[cl] = v1[cl]
        for name, got, fn in [('+ (item-assigned)', va + v2, lambda a, b: a + b), ('*3 (item-assigned)', va * 3.0, lambda a, b: a * 3.0)]:
            if set(got.keys()) != set(fam):
                fails.append('CliqueVector %s: keys %r' % (name, list(got.keys())))
                continue
            for cl in fam:
                cmp_tables(got[cl], set(cl), {a: fn(T1[cl][a], T2[cl][a]) for a in T1[cl]}, 'CliqueVector %s at %r' % (name, cl), fails, 1e-12)
        if not same(float(va.dot(v2)), ed, 1e-12) or va.size() != v1.size():
            fails.append('CliqueVector dot/size differ for an item-assigned collection')
        acc.evals += 3
        # constructors
        z, o, u = CliqueVector.zeros(dom, fam), CliqueVector.ones(dom, fam), CliqueVector.uniform(dom, fam)
        for cl in fam:
            if tuple(z[cl].domain.attrs) != cl or not np.all(z[cl].values == 0) or not np.all(o[cl].values == 1) or \
                    not np.allclose(u[cl].values, 1.0 / dom.size(cl), rtol=1e-15):
                fails.append('zeros/ones/uniform wrong at %r' % (cl,))
        acc.evals += 3
    return fails


INT_NAMES = {'A': 2, 'B': 0, 'C': 3, 'D': 1}   # integer attribute names that differ from their positions


def names_for(job_or_case, k):
    if job_or_case.get('names') == 'ints':
        return [INT_NAMES[a] for a in S.ATTRS[:k]]
    return S.ATTRS[:k]


def warm_up_other_pattern(job, k):
    """the same attribute tuples are first combined under the OTHER size pattern in this process: nothing about a pair of
    attribute tuples may be remembered independently of the sizes"""
    from mbi import Domain
    other = [p_ for p_ in PATTERNS if p_ != job['pat']][0]
    names = names_for(job, k)
    dom2 = Domain(names, PATTERNS[other][:k])
    tl = [tuple(names[S.ATTRS.index(a)] for a in t) for t in tuples(k)]
    for t1 in tl[:6] + tl[-3:]:
        for t2 in tl:
            f1, f2 = mk(dom2, t1, 0, 'signed'), mk(dom2, t2, 60, 'signed')
            (f1 + f2), (f1 * f2), f1.domain.merge(f2.domain)


def run_job(job):
    from mbi import Domain
    acc = Acc()
    k = job['k']
    names = names_for(job, k)
    ren = lambda t: tuple(names[S.ATTRS.index(a)] for a in t)
    warm_up_other_pattern(job, k)
    dom = Domain(names, PATTERNS[job['pat']][:k])
    if job.get('cliquevector'):
        dom = Domain(S.ATTRS[:k], PATTERNS[job['pat']][:k])
        fails = cliquevector_cases(acc, dom, k)
        case = {'pat': job['pat'], 'k': k, 'cliquevector': True}
        acc.case(case)
        acc.outcome('cliquevector:%s' % ('ok' if not fails else 'FAIL'))
        if fails:
            acc.violate(case, {'kind': 'cliquevector', 'op': fails[0].split(' ')[1]}, '; '.join(fails[:5]))
        return acc
    t1 = ren(tuple(job['t1']))
    fails = unary_cases(acc, dom, job['pat'], t1, k, names)
    case = {'pat': job['pat'], 'k': k, 't1': list(job['t1']), 't2': None, 'names': job.get('names')}
    acc.case(case, nontrivial=len(t1) >= 2)
    acc.outcome('unary:%s' % ('ok' if not fails else 'FAIL'))
    if fails:
        acc.violate(case, {'kind': 'unary', 'op': fails[0].split('(')[0].split(' ')[0]}, '; '.join(fails[:5]))
    for t2_ in tuples(k):
        t2 = ren(t2_)
        fails = binary_cases(acc, dom, job['pat'], t1, t2, job['seed'])
        case = {'pat': job['pat'], 'k': k, 't1': list(job['t1']), 't2': list(t2_), 'names': job.get('names')}
        acc.case(case, nontrivial=bool(set(t1) & set(t2)) or True)
        for f in fails[:1]:
            op = f.split(' ')
        if fails:
            opname = next((o for o in ('logaddexp', '+=', '*=', ' + ', ' - ', ' * ', ' / ') if o in fails[0]), 'other').strip()
            acc.violate(case, {'kind': 'binary', 'op': opname}, '; '.join(fails[:5]))
            acc.outcome('binary:FAIL:%s' % opname)
        else:
            acc.outcome('binary:ok')
    acc.sample({'pattern': PATTERNS[job['pat']][:k], 't1': list(t1), 't2': 'every ordered tuple', 'ops': '+ - * / logaddexp += *= and unary alphabet'})
    return acc


def replay(case):
    from mbi import Domain
    acc = Acc()
    k = case['k']
    names = names_for(case, k)
    ren = lambda t: tuple(names[S.ATTRS.index(a)] for a in t)
    if not case.get('cliquevector'):
        warm_up_other_pattern(case, k)
    dom = Domain(names, PATTERNS[case['pat']][:k])
    if case.get('cliquevector'):
        dom = Domain(S.ATTRS[:k], PATTERNS[case['pat']][:k])
        fails = cliquevector_cases(acc, dom, k)
    elif case['t2'] is None:
        fails = unary_cases(acc, dom, case['pat'], ren(tuple(case['t1'])), k, names)
    else:
        fails = binary_cases(acc, dom, case['pat'], ren(tuple(case['t1'])), ren(tuple(case['t2'])), 0)
    for f in fails:
        print(f)
    return [{'key': {'kind': 'factor-algebra'}, 'msg': '; '.join(fails[:6])}] if fails else []
