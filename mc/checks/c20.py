"""C20 - selection and noise primitives are exactly calibrated.

E1: all score vectors of length 1..4 over a 6-letter alphabet x eps x sensitivity x base
measure x array/dict forms for every selection primitive; the p= argument of choice()
and the scale arguments of the samplers are captured and compared with the definition."""
import itertools

import numpy as np

from ..core import Acc
from .. import envctl as E
from .. import oracle as O
from .. import meas as M
from .. import mechload

PROPERTY = 'C20'
LEVEL = 'exploration'
DESIGN_REF = 'DESIGN.md section 5 / C20'
TECHNIQUE = ('exhaustive enumeration of score vectors (6-letter alphabet, length <= 4, ties included) x parameters for each selection primitive with '
             'numpy.random replaced by a recorder; captured sampling distribution compared with the definition of the exponential mechanism')
RULE = ('case = (primitive, score vector, eps, sensitivity, base measure, form); score vectors: ALL tuples of length 1..3 (quick) / 1..4 (thorough) over '
        '{0,1,-1,2.5,1e6,-1e6}; eps {0.1,1,10}; sensitivity {0.5,1,2}; base measure {None, uniform, (1,2,3,4), (0,1,2,3)}; primitives: Mechanism.exponential_mechanism '
        '(array, dict), mst.exponential_mechanism, adaptive_grid.exponential_mechanism (both monotonic values; keyword call and positional call with a caller-owned generator), mwem worst_approximated, '
        'AIM.worst_approximated, generalized_exponential_mechanism (delegation), scale helpers and samplers. non-trivial = vector length >= 2; '
        'distinct = digest of the case.')
LEVEL_TEXT = ('The space of score vectors over the alphabet is enumerated completely for each primitive and parameter combination and the probability '
              'vector actually handed to the sampler is compared entry by entry with the definition evaluated with an exact max shift; shift '
              'invariance and finiteness at magnitude 1e6 are checked on the same cases.')
LEVEL_NOTE = ('Tolerance includes the floating-point resolution of the exponent (8*eps_mach*max|score|): mst.exponential_mechanism does not shift by the '
              'maximum and is exact only to that resolution. autodp is stubbed, so gaussian_noise_scale is checked up to the stubbed calibrator.')
ASSUMPTIONS = ['numpy.random sampler quality trusted; only its arguments are checked']

ALPHA = [0.0, 1.0, -1.0, 2.5, 1e6, -1e6]
EPS = [0.1, 1.0, 10.0]
SENS = [0.5, 1.0, 2.0]


def bounds(tier):
    return {'vector_length': 3 if tier == 'quick' else 4, 'alphabet': ALPHA, 'eps': EPS, 'sensitivity': SENS, 'shifts': [3.0, -1e5]}


class Recorder:
    def __init__(self):
        self.p = None
        self.noise = []

    def choice(self, a, size=None, replace=True, p=None):
        E.validate_p(a, size, replace, p)
        self.p = None if p is None else np.array(p, dtype=float)
        self.a = a
        return 0

    def normal(self, loc=0.0, scale=1.0, size=None):
        self.noise.append(('normal', loc, scale, size))
        return np.zeros(size)

    def laplace(self, loc=0.0, scale=1.0, size=None):
        self.noise.append(('laplace', loc, scale, size))
        return np.zeros(size)


def compare(p, ref, S):
    if p is None:
        return 'choice() was not given a probability vector'
    if p.shape != ref.shape:
        return 'p has shape %r, expected %r' % (p.shape, ref.shape)
    if not np.all(np.isfinite(p)):
        return 'p contains non-finite entries %r' % p.tolist()
    if abs(p.sum() - 1) > 1e-9 + 8 * 2.2e-16 * S * p.size:
        return 'p sums to %r' % p.sum()
    tol = 1e-12 + ref * (1e-9 + 8 * 2.2e-16 * S)
    if np.any(np.abs(p - ref) > tol):
        i = int(np.argmax(np.abs(p - ref) - tol))
        return 'p[%d]=%.12g but the definition gives %.12g (p=%s ref=%s)' % (i, p[i], ref[i], np.round(p, 8).tolist(), np.round(ref, 8).tolist())
    return None


class StubModel:
    """model whose project(cl).datavector() returns a chosen estimate"""

    def __init__(self, est, sizes):
        self.est = est
        self.domain = self
        self.sizes = sizes

    def size(self, cl):
        return self.sizes[cl]

    def project(self, cl):
        v = self.est[cl]

        class F:
            def datavector(self_inner):
                return v
        return F()


_AIM = {}


def aim_instance():
    if 'i' not in _AIM:
        aim = mechload.load('aim')
        with M.quiet():
            _AIM['i'] = aim.AIM(1.0, 1e-6)
    return _AIM['i']


def _mech_instance(bounded):
    key = 'm%s' % bounded
    if key not in _AIM:
        mech = mechload.load('mechanism')
        _AIM[key] = mech.Mechanism(1.0, 1e-6, bounded)
    return _AIM[key]


def run_vector(acc, q, tier):
    """all primitives x parameters for one score vector"""
    mech_mod = mechload.load('mechanism')
    mst = mechload.load('mst')
    ag = mechload.load('adaptive_grid')
    mwem = mechload.load('mwem')
    q = np.array(q, dtype=float)
    n = q.size
    keys = ['k%d' % i for i in range(n)]
    bases = [None, np.ones(n), np.arange(1, n + 1, dtype=float)]
    if n >= 2:
        bases.append(np.arange(0, n, dtype=float))   # the first candidate has base measure exactly 0: it must never be selected
    for eps, sens in itertools.product(EPS, SENS):
        for shift in (0.0, 3.0, -1e5):
            qs = q + shift
            for bi, base in enumerate(bases):
                ref = O.exp_mech_probs(q, eps, sens, 0.5, base)
                S = float(np.max(np.abs(0.5 * eps / sens * qs)))
                for form in ('array', 'dict', 'list', 'dict-reordered-base', 'dict-superset-base', 'array-reused'):
                    rec = Recorder()
                    m = _mech_instance(False)
                    with E.installed(rec):
                        if form == 'dict':
                            out = m.exponential_mechanism(dict(zip(keys, qs)), eps, sens, base_measure=None if base is None else dict(zip(keys, base)))
                        elif form in ('dict-reordered-base', 'dict-superset-base'):
                            # the base measure is a mapping: its insertion order / extra keys must not matter
                            if base is None or bi != 2:
                                continue
                            bm = dict(reversed(list(zip(keys, base))))
                            if form == 'dict-superset-base':
                                bm = dict([('zz-unused', 7.0)] + list(bm.items()) + [('yy-unused', 0.5)])
                            out = m.exponential_mechanism(dict(zip(keys, qs)), eps, sens, base_measure=bm)
                        elif form == 'list':
                            if base is not None:
                                continue
                            out = m.exponential_mechanism(list(qs), eps, sens)
                        elif form == 'array-reused':
                            # the caller keeps one float64 score array and selects from it twice: the second draw must use the same distribution
                            arr = qs.copy()
                            barr = None if base is None else np.log(base)
                            with np.errstate(divide='ignore'):
                                m.exponential_mechanism(arr, eps, sens, base_measure=barr)
                                rec.p = None
                                out = m.exponential_mechanism(arr, eps, sens, base_measure=barr)
                        else:
                            with np.errstate(divide='ignore'):
                                out = m.exponential_mechanism(qs.copy(), eps, sens, base_measure=None if base is None else np.log(base))
                    case = {'q0': q.tolist(), 'prim': 'Mechanism.exponential_mechanism', 'q': qs.tolist(), 'eps': eps, 'sens': sens, 'base': bi, 'form': form}
                    acc.case(case, nontrivial=n >= 2)
                    err = compare(rec.p, ref, S)
                    if form == 'array-reused' and not np.array_equal(arr, qs):
                        err = 'the caller\'s score array was modified by the call (now %r)' % (arr.tolist(),)
                    if err is None and form.startswith('dict') and out != keys[0] and bi != 3:
                        err = 'dict form returned %r, expected the key of the drawn index' % (out,)
                    if err:
                        acc.violate(case, {'kind': 'miscalibrated', 'prim': 'Mechanism.exponential_mechanism', 'form': form}, err)
            # module-level primitives (no base measure)
            for name, fn in (('mst.exponential_mechanism', mst.exponential_mechanism), ('adaptive_grid.exponential_mechanism', ag.exponential_mechanism)):
                for mono in (False, True):
                    coef = 1.0 if mono else 0.5
                    ref = O.exp_mech_probs(q, eps, sens, coef, None)
                    S = float(np.max(np.abs(coef * eps / sens * qs)))
                    for call in ('keyword', 'positional-prng-only', 'positional'):
                        if call == 'positional-prng-only' and mono:
                            continue
                        rec = Recorder()
                        own = Recorder()
                        with E.installed(rec):
                            if call == 'keyword':
                                fn(qs.copy(), eps, sens, monotonic=mono)
                            elif call == 'positional-prng-only':
                                fn(qs.copy(), eps, sens, own)
                            else:
                                # documented positional order (q, eps, sensitivity, prng, monotonic) with a caller-owned generator
                                fn(qs.copy(), eps, sens, own, mono)
                        case = {'q0': q.tolist(), 'prim': name, 'q': qs.tolist(), 'eps': eps, 'sens': sens, 'monotonic': mono, 'call': call}
                        acc.case(case, nontrivial=n >= 2)
                        if call != 'keyword' and rec.p is not None:
                            err = 'a generator was supplied but the draw was taken from the global numpy.random'
                        else:
                            err = compare(rec.p if call == 'keyword' else own.p, ref, S)
                        if err:
                            acc.violate(case, {'kind': 'miscalibrated', 'prim': name, 'monotonic': mono, 'call': call}, err)
        # adaptive_grid documents eps = inf (greedy limit): uniform over the candidates tied for the best quality
        # (sensitivity < 1 is outside the alphabet here: finfo.max / 0.5 overflows to inf and inf*0 = NaN - eps = inf is an
        #  implementation extension, the property's epsilon is a finite privacy parameter; noted in DESIGN.md 11.6)
        if eps == EPS[0] and sens >= 1.0:
            for mono in (False, True):
                ref = (q == q.max()).astype(float)
                ref /= ref.sum()
                rec = Recorder()
                with E.installed(rec):
                    ag.exponential_mechanism(q.copy(), np.inf, sens, monotonic=mono)
                case = {'q0': q.tolist(), 'prim': 'adaptive_grid.exponential_mechanism', 'q': q.tolist(), 'eps': 'inf', 'sens': sens, 'monotonic': mono}
                acc.case(case, nontrivial=n >= 2)
                err = compare(rec.p, ref, 0.0)
                if err:
                    acc.violate(case, {'kind': 'miscalibrated', 'prim': 'adaptive_grid.exponential_mechanism', 'monotonic': mono, 'eps': 'inf'}, 'eps=inf: ' + err)
        # selection over marginal L1 errors (mwem): errors_i = |x - xest|_1 - bias
        if sens == 1.0:
            for bounded in (False, True):
                for penalty in (False, True):
                    cl = [('c%d' % i,) for i in range(n)]
                    x = {c: np.array([abs(v), 0.0]) for c, v in zip(cl, q)}
                    est = {c: np.zeros(2) for c in cl}
                    sizes = {c: [2, 3, 6, 4][i % 4] for i, c in enumerate(cl)}    # candidates of different domain size: different penalties
                    errors = np.array([abs(v) - (sizes[c] if penalty else 0) for c, v in zip(cl, q)])
                    ref = O.exp_mech_probs(errors, eps, 2.0 if bounded else 1.0, 0.5, None)
                    S = float(np.max(np.abs(0.5 * eps * errors)))
                    rec = Recorder()
                    with E.installed(rec):
                        out = mwem.worst_approximated(x, StubModel(est, sizes), cl, eps, penalty=penalty, bounded=bounded)
                    case = {'q0': q.tolist(), 'prim': 'mwem.worst_approximated', 'q': errors.tolist(), 'eps': eps, 'bounded': bounded, 'penalty': penalty}
                    acc.case(case, nontrivial=n >= 2)
                    err = compare(rec.p, ref, S)
                    if err:
                        acc.violate(case, {'kind': 'miscalibrated', 'prim': 'mwem.worst_approximated', 'bounded': bounded}, err)
            # AIM.worst_approximated: errors = w*(|x-xest|_1 - bias), sensitivity max|w|
            a = aim_instance()
            cl = [('c%d' % i,) for i in range(n)]
            wts = {c: [1.0, 0.5, 2.0, 1.5][i % 4] for i, c in enumerate(cl)}
            sigma = 0.7
            x = {c: np.array([abs(v), 0.0]) for c, v in zip(cl, q)}
            est = {c: np.zeros(2) for c in cl}
            sizes = {c: 2 for c in cl}
            bias = np.sqrt(2 / np.pi) * sigma * 2
            errors = np.array([wts[c] * (abs(v) - bias) for c, v in zip(cl, q)])
            ref = O.exp_mech_probs(errors, eps, max(wts.values()), 0.5, None)
            S = float(np.max(np.abs(0.5 * eps * errors / max(wts.values()))))
            rec = Recorder()
            with E.installed(rec):
                a.worst_approximated(wts, x, StubModel(est, sizes), eps, sigma)
            case = {'q0': q.tolist(), 'prim': 'AIM.worst_approximated', 'q': errors.tolist(), 'eps': eps}
            acc.case(case, nontrivial=n >= 2)
            err = compare(rec.p, ref, S)
            if err:
                acc.violate(case, {'kind': 'miscalibrated', 'prim': 'AIM.worst_approximated'}, err)
            # generalized exponential mechanism: delegation with sensitivity 1 to the scores it computes itself
            ds = np.array([[1.0, 2.0, 0.5, 1.5][i % 4] for i in range(n)])
            m = _mech_instance(False)
            t = 2 * np.log(n / 0.5) / eps
            scores = mech_mod.generalized_em_scores(q.copy(), ds.copy(), t)
            if np.all(np.isfinite(scores)):
                ref = O.exp_mech_probs(scores, eps, 1.0, 0.5, None)
                S = float(np.max(np.abs(0.5 * eps * scores)))
                rec = Recorder()
                with E.installed(rec):
                    m.generalized_exponential_mechanism(q.copy(), ds.copy(), eps)
                case = {'q0': q.tolist(), 'prim': 'generalized_exponential_mechanism', 'q': q.tolist(), 'eps': eps}
                acc.case(case, nontrivial=n >= 2)
                err = compare(rec.p, ref, S)
                if err:
                    acc.violate(case, {'kind': 'miscalibrated', 'prim': 'generalized_exponential_mechanism'}, err)


def run_scales(acc):
    mech = mechload.load('mechanism')
    for bounded in (False, True, np.bool_(True), np.bool_(False), 1, 0):    # the adjacency flag as Python / numpy booleans and 0/1
        m = mech.Mechanism(1.0, 1e-6, bounded)
        bounded = bool(bounded)
        for sens in (0.5, 1.0, 3.0):
            for eps in EPS:
                case = {'prim': 'scale-helpers', 'bounded': bounded, 'sens': sens, 'eps': eps}
                acc.case(case)
                b = m.laplace_noise_scale(sens, eps)
                exp = (2 if bounded else 1) * sens / eps
                if abs(b - exp) > 1e-12 * exp:
                    acc.violate(case, {'kind': 'scale', 'prim': 'laplace_noise_scale', 'bounded': bounded}, 'laplace_noise_scale(%g,%g) bounded=%s returned %r, expected %r' % (sens, eps, bounded, b, exp))
                s = m.gaussian_noise_scale(sens, eps, 1e-6)
                exp = (2 if bounded else 1) * sens * mechload.STUB_SIGMA
                if abs(s - exp) > 1e-12 * exp:
                    acc.violate(case, {'kind': 'scale', 'prim': 'gaussian_noise_scale', 'bounded': bounded}, 'gaussian_noise_scale(%g,%g) bounded=%s returned %r, expected %r x calibrated sigma = %r' % (sens, eps, bounded, s, sens, exp))
                for scale in (0.3, 1.0, 17.5):
                    for size in (1, 5, (2, 3)):
                        rec = Recorder()
                        with E.installed(rec):
                            m.gaussian_noise(scale, size)
                            m.laplace_noise(scale, size)
                            f = m.best_noise_distribution(sens, sens, eps, 1e-6)
                            f(size)
                        bb, ss = m.laplace_noise_scale(sens, eps), m.gaussian_noise_scale(sens, eps, 1e-6)
                        want3 = ('laplace', 0, bb, size) if np.sqrt(2) * bb < ss else ('normal', 0, ss, size)
                        got = rec.noise
                        acc.evals += 1
                        if len(got) != 3 or got[0] != ('normal', 0, scale, size) or got[1] != ('laplace', 0, scale, size) or got[2] != want3:
                            acc.violate(dict(case, scale=scale, size=size), {'kind': 'sampler-arguments', 'prim': 'samplers'},
                                        'samplers called with %r; expected normal(0,%r,%r), laplace(0,%r,%r), %r' % (got, scale, size, scale, size, want3))
    acc.outcome('scales')


def run_mwem_real(acc):
    """mwem.worst_approximated with a real fitted model (carrying cached clique marginals) and candidates spelled in any attribute order"""
    from mbi import Domain, GraphicalModel, Factor, CliqueVector
    mwem = mechload.load('mwem')
    attrs, sizes = ['A', 'B', 'C'], [2, 3, 2]
    dom = Domain(attrs, sizes)
    rng = np.random.RandomState(3)
    for cliques in ([('A', 'B'), ('B', 'C')], [('A', 'B', 'C')]):
        model = GraphicalModel(dom, cliques, total=30.0)
        pots = [(cl, rng.randn(*[sizes[attrs.index(a)] for a in cl])) for cl in model.cliques]
        model.potentials = CliqueVector({cl: Factor(dom.project(cl), a) for cl, a in pots})
        model.marginals = model.belief_propagation(model.potentials)
        joint = O.explicit_joint(attrs, sizes, pots, 30.0)
        truth = rng.dirichlet(np.ones(12)).reshape(sizes) * 30.0
        cands = [('B', 'A'), ('A', 'B'), ('C', 'B'), ('A',), ('C', 'A'), ('B', 'C', 'A')]
        answers = {cl: O.marginal(truth, attrs, cl).flatten() for cl in cands}
        for eps in EPS:
            for bounded in (False, True):
                for penalty in (False, True):
                    errors = np.array([np.abs(answers[cl] - O.marginal(joint, attrs, cl).flatten()).sum() - (dom.size(cl) if penalty else 0) for cl in cands])
                    ref = O.exp_mech_probs(errors, eps, 2.0 if bounded else 1.0, 0.5, None)
                    rec = Recorder()
                    with E.installed(rec):
                        mwem.worst_approximated(answers, model, cands, eps, penalty=penalty, bounded=bounded)
                    case = {'prim': 'mwem.worst_approximated(real model)', 'cliques': [list(c) for c in cliques], 'eps': eps, 'bounded': bounded, 'penalty': penalty}
                    acc.case(case)
                    err = compare(rec.p, ref, float(np.max(np.abs(0.5 * eps * errors))))
                    if err:
                        acc.violate(case, {'kind': 'miscalibrated', 'prim': 'mwem.worst_approximated', 'bounded': bounded, 'real_model': True}, 'candidates %r: %s' % (cands, err))
    acc.outcome('mwem-real-model')


def vectors(tier):
    L = 3 if tier == 'quick' else 4
    return [list(v) for r in range(1, L + 1) for v in itertools.product(ALPHA, repeat=r)]


def jobs(tier, seed):
    vs = vectors(tier)
    step = 16 if tier == 'quick' else 48
    out = [{'lo': i, 'hi': min(len(vs), i + step), 'tier': tier} for i in range(0, len(vs), step)]
    out.append({'scales': True, 'tier': tier})
    return out


def run_job(job):
    acc = Acc()
    with M.quiet():
        if job.get('scales'):
            run_scales(acc)
            run_mwem_real(acc)
            return acc
        vs = vectors(job['tier'])
        for i in range(job['lo'], job['hi']):
            before = acc.nviol
            run_vector(acc, vs[i], job['tier'])
            acc.outcome('vector:%s' % ('ok' if acc.nviol == before else 'FAIL'))
        acc.sample({'q': vs[job['lo']], 'eps': EPS, 'sens': SENS, 'primitives': 7})
    return acc


def replay(case):
    acc = Acc()
    with M.quiet():
        if case['prim'] in ('scale-helpers',):
            run_scales(acc)
        elif case['prim'].startswith('mwem.worst_approximated(real'):
            run_mwem_real(acc)
        else:
            # re-run all primitives on the recorded base vector family and keep the matching primitive
            run_vector(acc, case['q0'], 'thorough')
    vs = [v for v in acc.violations if v['key'].get('prim') == case['prim'] or case['prim'] == 'scale-helpers' or case['prim'].startswith('mwem.worst_approximated(real')]
    for v in vs:
        print(v['msg'])
    return vs
