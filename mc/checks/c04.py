"""C04 - the optimised objective, its gradient and smoothness bound are the stated ones.

E1: every measurement structure of two menus x spellings x candidate marginal
vectors; oracle = loss recomputed from the explicit joint, exact finite
differences along every coordinate, dense Hessian eigenvalue."""
import itertools

import numpy as np

from ..core import Acc
from .. import oracle as O
from .. import meas as M

PROPERTY = 'C04'
LEVEL = 'exploration'
DESIGN_REF = 'DESIGN.md section 5 / C04'
TECHNIQUE = ('exhaustive enumeration of measurement structures x spellings x candidate marginals on the real _marginal_loss/_lipschitz; '
             'explicit-joint loss, coordinate-wise exact finite differences, dense Hessian eigenvalue')
RULE = ('case = (domain, measurement structure, spelling class, metric); structures: all subsets of size <=3 of a 7-entry menu on '
        '(A,B,C) and all subsets of size <=4 (quick) / <=5 (thorough) of an 8-entry menu on (A,B,C,D) with sizes (3,2,2,3), which '
        'contains projections that fit several model cliques of different size; spellings: dense/sparse/operator/None x '
        'tuple/list/str, and integer/bool/float32 element types of integer-valued queries; candidates: uniform, BP of two generic potentials, plus an inconsistent perturbation for derivative tests. '
        'non-trivial = >= 2 measurements; distinct = digest of the case.')
LEVEL_TEXT = ('Complete enumeration of the stated structure menus; for each, the loss value is compared with an independent evaluation '
              'on the explicit joint, the gradient with exact central differences along every coordinate of the concatenated marginal '
              'vector (exact for the quadratic loss), all spellings with each other, and the smoothness constant with the largest '
              'eigenvalue of the dense Hessian obtained from the real gradient.')
LEVEL_NOTE = ('Query matrices and candidate marginals come from a seeded finite alphabet; single-cell projections and all-zero queries '
              'are outside the alphabet (eigsh raises inside scipy for them).')
ASSUMPTIONS = ['numpy.linalg.eigvalsh is trusted', 'eigsh start vector fixed by a harness seam; bound compared with 1e-9 relative slack']

SIZES4 = [3, 2, 2, 3]


def bounds(tier):
    return {'menu3_subsets': '<=3 (63 structures)', 'menu4_subsets': '<=4 (162)' if tier == 'quick' else '<=5 (218)',
            'spellings': '4 query kinds x 3 projection forms + 4 element types (int64, bool, float32, sparse int64)', 'metrics': ['L2', 'L1']}


# the same attribute set measured twice under different spellings of its order (within one model clique)
EXTRA3 = [
    (('A', 'B'), ('B', 'A')),
    (('B', 'A'), ('A', 'B'), ('B', 'C')),
    (('C', 'A'), ('A', 'C')),
    (('A', 'B', 'C'), ('C', 'A', 'B'), ('B', 'A')),
    (('A', 'B'), ('A', 'B')),
    (('B',), ('A', 'B'), ('B', 'C')),
]


def structs3():
    return M.structures(M.MENU3, 3) + EXTRA3


def jobs(tier, seed):
    out = []
    s3 = structs3()
    for i in range(0, len(s3), 4):
        out.append({'dom': 3, 'idx': list(range(i, min(i + 4, len(s3)))), 'seed': seed, 'tier': tier})
    s4 = M.structures(M.MENU4, 4 if tier == 'quick' else 5)
    for i in range(0, len(s4), 6):
        out.append({'dom': 4, 'idx': list(range(i, min(i + 6, len(s4)))), 'seed': seed, 'tier': tier})
    return out


def flat(cv, cliques):
    return np.concatenate([np.asarray(cv[cl].values, dtype=float).flatten() for cl in cliques])


def unflat(vec, template, cliques):
    from mbi import Factor, CliqueVector
    out = {}
    o = 0
    for cl in cliques:
        d = template[cl].domain
        n = d.size()
        out[cl] = Factor(d, vec[o:o + n].copy())
        o += n
    return CliqueVector(out)


def respell(dense, qkind, pform):
    """same measurements, different spelling"""
    out = []
    for (Qd, y, s, cl, kd) in dense:
        ident = Qd.shape[0] == Qd.shape[1] and np.array_equal(Qd, np.eye(Qd.shape[0]))
        k = qkind
        if k == 'none' and not ident:
            k = 'dense'
        if k == 'dia':
            from scipy import sparse
            isdiag = Qd.shape[0] == Qd.shape[1] and np.array_equal(Qd, np.diag(np.diag(Qd)))
            Q = sparse.diags(np.diag(Qd).copy()) if isdiag else Qd.copy()    # DIA storage with a single offset 0
        elif k in ('int', 'bool', 'f32', 'sparse-int'):
            # the same query spelled with another element type (only where the entries are representable exactly)
            exact = np.array_equal(Qd, np.round(Qd)) and (k != 'bool' or set(np.unique(Qd)) <= {0.0, 1.0})
            if not exact:
                Q = Qd.copy()
            elif k == 'sparse-int':
                from scipy import sparse
                Q = sparse.csr_matrix(Qd.astype(np.int64))
            else:
                Q = Qd.astype({'int': np.int64, 'bool': bool, 'f32': np.float32}[k])
        else:
            Q = M.wrap(k, Qd.copy())
        if pform == 'list':
            proj = list(cl)
        elif pform == 'str' and len(cl) == 1:
            proj = cl[0]
        else:
            proj = tuple(cl)
        out.append((Q, y.copy(), s, proj))
    return out


def setup(attrs, sizes, measurements, total, metric):
    from mbi import Domain, FactoredInference
    eng = FactoredInference(Domain(attrs, sizes), metric=metric, iters=1)
    ms = eng.fix_measurements(measurements)
    eng._setup(ms, total)
    return eng, ms


def check_structure(acc, domk, si, seed, tier):
    from mbi import Factor, CliqueVector
    M.deterministic_eigsh()
    attrs, sizes, menu = (M.ATTRS3, M.SIZES3, M.MENU3) if domk == 3 else (M.ATTRS4, SIZES4, M.MENU4)
    struct = structs3()[si] if domk == 3 else M.structures(menu, 4 if tier == 'quick' else 5)[si]
    prob = M.Problem(attrs, sizes, struct, si, 'pos', seed)
    T = prob.T
    fails = []
    ms_in = prob.fresh_measurements()
    y_before = [np.array(m_[1], copy=True) for m_ in ms_in]
    eng, ms = setup(attrs, sizes, ms_in, T, 'L2')
    if any(not np.array_equal(a, np.asarray(m_[1])) for a, m_ in zip(y_before, ms_in)):
        fails.append(('inputs-mutated', 'setting up the objective modified the caller\'s answer arrays (a later call on the same measurements optimises a different loss)'))
    model = eng.model
    cl_list = list(model.cliques)
    rng = np.random.RandomState(seed * 7919 + si)
    # consistent candidates: BP of potentials (uniform and two generic)
    cands = []
    for j in range(3):
        pots = CliqueVector({cl: Factor(model.domain.project(cl), (0.0 if j == 0 else 1.0) * rng.randn(*model.domain.project(cl).shape)) for cl in cl_list})
        mu = model.belief_propagation(pots)
        joint = O.explicit_joint(attrs, sizes, [(tuple(pots[cl].domain.attrs), pots[cl].values) for cl in cl_list], T)
        cands.append((mu, joint))
    # (a) value of the loss = sum over supplied measurements, each once
    for j, (mu, joint) in enumerate(cands):
        got, _ = eng._marginal_loss(mu)
        ref = prob.f(joint.flatten())
        acc.evals += 1
        if not abs(got - ref) <= 1e-9 * max(1.0, abs(ref)):
            fails.append(('loss-value', 'L2 loss %.12g but sum over the supplied measurements on the explicit joint is %.12g (candidate %d)' % (got, ref, j)))
        ref1 = float(np.sum(np.abs(prob.A @ joint.flatten() - prob.b)))
        got1, _ = eng._marginal_loss(mu, metric='L1')
        if not abs(got1 - ref1) <= 1e-9 * max(1.0, abs(ref1)):
            fails.append(('loss-value-L1', 'L1 loss %.12g, expected %.12g (candidate %d)' % (got1, ref1, j)))
    # (b) gradient along every coordinate; (d) Hessian bound
    mu = cands[1][0]
    x0 = flat(mu, cl_list) + 0.3 * rng.randn(sum(model.domain.size(cl) for cl in cl_list))
    F = lambda v, metric=None: eng._marginal_loss(unflat(v, mu, cl_list), metric=metric)
    l0, G0 = F(x0)
    g0 = flat(G0, cl_list)
    n = x0.size
    H = np.zeros((n, n))
    h = 0.5
    for i in range(n):
        e = np.zeros(n)
        e[i] = h
        lp, gp = F(x0 + e)
        lm, _ = F(x0 - e)
        fd = (lp - lm) / (2 * h)
        acc.evals += 1
        if not abs(fd - g0[i]) <= 1e-7 * max(1.0, abs(g0[i]), abs(l0)):
            fails.append(('gradient', 'L2 gradient coordinate %d is %.10g, central difference of the loss gives %.10g' % (i, g0[i], fd)))
            break
        H[:, i] = (flat(gp, cl_list) - g0) / h
    # the gradient object handed out for x0 must still be the gradient at x0 after later evaluations (solvers keep it across their line search)
    if np.abs(flat(G0, cl_list) - g0).max() > 0:
        fails.append(('gradient-overwritten', 'the gradient returned for one point changed (by %.3g) after the loss was evaluated at other points' % np.abs(flat(G0, cl_list) - g0).max()))
    if np.abs(H - H.T).max() > 1e-7 * max(1.0, np.abs(H).max()):
        fails.append(('hessian-symmetry', 'finite-difference Hessian of the real gradient is not symmetric'))
    lam = float(np.linalg.eigvalsh((H + H.T) / 2).max())
    L = float(eng._lipschitz(ms))
    acc.maximum('lambda_max_over_L', lam / L if L > 0 else 0.0, {'dom': domk, 'struct': struct})
    if not lam <= L * (1 + 1e-9) + 1e-12:
        fails.append(('lipschitz', '_lipschitz returned %.10g but the Hessian of the loss has largest eigenvalue %.10g' % (L, lam)))
    # L1 gradient at a point without zero residuals
    l1, g1 = F(x0, 'L1')
    g1 = flat(g1, cl_list)
    h1 = 1e-6
    for i in range(n):
        e = np.zeros(n)
        e[i] = h1
        lp, _ = F(x0 + e, 'L1')
        lm, _ = F(x0 - e, 'L1')
        fd = (lp - lm) / (2 * h1)
        acc.evals += 1
        if not abs(fd - g1[i]) <= 1e-4 * max(1.0, abs(g1[i])):
            fails.append(('gradient-L1', 'L1 gradient coordinate %d is %.8g, central difference gives %.8g' % (i, g1[i], fd)))
            break
    # (c) spellings
    base_l, base_g = eng._marginal_loss(mu)
    base_g = flat(base_g, cl_list)
    for qk in ('dense', 'sparse', 'linop', 'none', 'int', 'bool', 'f32', 'sparse-int'):
        for pf in ('tuple', 'list', 'str'):
            if qk in ('int', 'bool', 'f32', 'sparse-int') and pf != 'tuple':
                continue
            e2, ms2 = setup(attrs, sizes, respell(prob.dense, qk, pf), T, 'L2')
            if list(e2.model.cliques) != cl_list:
                fails.append(('spelling', 'spelling %s/%s changed the model cliques' % (qk, pf)))
                continue
            l2, g2 = e2._marginal_loss(mu)
            g2 = flat(g2, cl_list)
            acc.evals += 1
            if not (abs(l2 - base_l) <= 1e-10 * max(1.0, abs(base_l)) and np.abs(g2 - base_g).max() <= 1e-10 * max(1.0, np.abs(base_g).max())):
                fails.append(('spelling', 'spelling %s/%s gives loss %.12g vs %.12g, gradient diff %.3g' % (qk, pf, l2, base_l, np.abs(g2 - base_g).max())))
            L2 = float(e2._lipschitz(ms2))
            if not abs(L2 - L) <= (1e-5 if qk == 'f32' else 1e-8) * max(1.0, L):   # a float32 query makes eigsh work in single precision
                fails.append(('spelling-lipschitz', 'spelling %s/%s gives smoothness constant %.10g vs %.10g' % (qk, pf, L2, L)))
    # diagonal (weighted identity) queries spelled dense and in DIA storage: same loss, gradient and smoothness constant
    pkd = M.Problem(attrs, sizes, struct, si, 'pos', seed, kinds=['scaled', 'dense'])
    eD, msD = setup(attrs, sizes, respell(pkd.dense, 'dense', 'tuple'), T, 'L2')
    eS, msS = setup(attrs, sizes, respell(pkd.dense, 'dia', 'tuple'), T, 'L2')
    if list(eD.model.cliques) == list(eS.model.cliques) == cl_list:
        lD, gD = eD._marginal_loss(mu)
        lS, gS = eS._marginal_loss(mu)
        LD, LS = float(eD._lipschitz(msD)), float(eS._lipschitz(msS))
        acc.evals += 1
        if not (abs(lD - lS) <= 1e-10 * max(1.0, abs(lD)) and np.abs(flat(gD, cl_list) - flat(gS, cl_list)).max() <= 1e-10 * max(1.0, np.abs(flat(gD, cl_list)).max())):
            fails.append(('spelling', 'weighted-identity queries in DIA storage give loss %.12g vs %.12g dense' % (lS, lD)))
        if not abs(LD - LS) <= 1e-8 * max(1.0, LD):
            fails.append(('spelling-lipschitz', 'weighted-identity queries: smoothness constant %.10g in DIA storage vs %.10g dense' % (LS, LD)))
    # L1 derivative at count scale: total 1e7, residuals of a few records (tiny relative to the answers, not tiny in themselves)
    if domk == 3:
        probL = M.Problem(attrs, sizes, struct, si, 'pos', seed, total=1e7, noise_mult=3.0, sigmas=[1.0, 2.0])
        eL, msL = setup(attrs, sizes, probL.fresh_measurements(), probL.T, 'L2')
        clL = list(eL.model.cliques)
        tj = probL.truth.reshape(sizes)
        muL = CliqueVector({cl: Factor(eL.model.domain.project(cl), O.marginal(tj, attrs, cl)) for cl in clL})
        xL = flat(muL, clL)
        FL = lambda v: eL._marginal_loss(unflat(v, muL, clL), metric='L1')
        _, gL = FL(xL)
        gL = flat(gL, clL)
        for i in range(xL.size):
            fd = []
            for hh in (1e-3, 5e-4):
                e = np.zeros(xL.size)
                e[i] = hh
                fd.append((FL(xL + e)[0] - FL(xL - e)[0]) / (2 * hh))
            acc.evals += 1
            if abs(fd[0] - fd[1]) > 1e-5 * max(1.0, abs(fd[0])):
                continue    # a kink of the absolute value lies within the difference interval
            if not abs(fd[0] - gL[i]) <= 1e-4 * max(1.0, abs(gL[i])):
                fails.append(('gradient-L1', 'total 1e7, residuals of a few records: L1 gradient coordinate %d is %.8g, central difference gives %.8g' % (i, gL[i], fd[0])))
                break
    # the same projection measured several times with same-shaped but different queries (identity, weighted identity, prefix sums)
    dup = [c for c in set(struct) if list(struct).count(c) >= 2]
    if dup or len(struct) == 1:
        st2 = tuple([struct[0]] * 3)
        pk = M.Problem(attrs, sizes, st2, 0, 'pos', seed, kinds=['dense', 'scaled', 'prefix'], sigmas=[1.0, 1.0, 1.0])
        e3, ms3 = setup(attrs, sizes, pk.fresh_measurements(), T, 'L2')
        cl3 = list(e3.model.cliques)
        n3 = sum(e3.model.domain.size(c) for c in cl3)
        mu3 = e3.model.belief_propagation(e3.model.potentials)
        x3 = flat(mu3, cl3)
        _, g3 = e3._marginal_loss(unflat(x3, mu3, cl3))
        g3 = flat(g3, cl3)
        H3 = np.zeros((n3, n3))
        for i in range(n3):
            e_ = np.zeros(n3)
            e_[i] = 1.0
            _, gp = e3._marginal_loss(unflat(x3 + e_, mu3, cl3))
            H3[:, i] = flat(gp, cl3) - g3
        lam3 = float(np.linalg.eigvalsh((H3 + H3.T) / 2).max())
        L3 = float(e3._lipschitz(ms3))
        acc.evals += 1
        if not lam3 <= L3 * (1 + 1e-9) + 1e-12:
            fails.append(('lipschitz', 'three same-shaped queries (identity, weighted identity, prefix) on %r: _lipschitz returned %.8g, largest Hessian eigenvalue %.8g' % (struct[0], L3, lam3)))
    # history: the same engine object sets up a second measurement list (same projections, same shapes, different
    # queries); the bound must be the one of the list it is asked about (no state carried over between calls)
    if len(struct) >= 1:
        from mbi import Domain, FactoredInference
        engh = FactoredInference(Domain(attrs, sizes), metric='L2', iters=1)
        for kinds in (['dense'], ['prefix'], ['tall'], ['scaled'], ['dense']):
            probk = M.Problem(attrs, sizes, struct, si, 'pos', seed, kinds=kinds)
            msk = engh.fix_measurements(probk.fresh_measurements())
            engh._setup(msk, T)
            Lh = float(engh._lipschitz(msk))
            engf, msf = setup(attrs, sizes, probk.fresh_measurements(), T, 'L2')
            Lf = float(engf._lipschitz(msf))
            acc.evals += 1
            if not abs(Lh - Lf) <= 1e-8 * max(1.0, Lf):
                fails.append(('lipschitz-history', 'on a reused engine _lipschitz returned %.8g for queries of kind %s, a fresh engine returns %.8g' % (Lh, kinds[0], Lf)))
                break
    return struct, fails


def run_job(job):
    acc = Acc()
    for si in job['idx']:
        case = {'dom': job['dom'], 'si': si, 'seed': job['seed'], 'tier': job['tier']}
        with M.quiet():
            struct, fails = check_structure(acc, job['dom'], si, job['seed'], job['tier'])
        acc.case(dict(case, struct=struct), nontrivial=len(struct) >= 2)
        kinds = sorted({k for k, _ in fails})
        acc.outcome('ok' if not fails else 'FAIL:' + ','.join(kinds))
        for kind in kinds:
            msg = '; '.join(m for k, m in fails if k == kind)
            acc.violate(dict(case, struct=[list(c) for c in struct]), {'kind': kind}, 'structure %r: %s' % (struct, msg))
    acc.sample({'domain': job['dom'], 'structure': [list(c) for c in struct], 'spellings': 12, 'candidates': 3})
    return acc


def replay(case):
    acc = Acc()
    with M.quiet():
        struct, fails = check_structure(acc, case['dom'], case['si'], case['seed'], case['tier'])
    for k, m in fails:
        print(k, m)
    return [{'key': {'kind': k}, 'msg': m} for k, m in fails]
