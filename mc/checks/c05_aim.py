"""AIM's adaptive budget ledger explored with the estimator replaced by a stub whose answers are
environment decisions, which makes the annealing bit of every round a free choice: ALL
(selection, anneal-bit) paths up to termination, each replayed on every neighbour."""
import numpy as np

from .. import envctl as E
from .. import ledger as L
from .. import meas as M
from .. import mechload
from .. import oracle as O

ENV = [None]


class StubFactor:
    def __init__(self, v):
        self.v = v

    def datavector(self, flatten=True):
        return self.v


class StubModel:
    def __init__(self, domain, cliques, offset):
        self.domain, self.cliques, self.offset = domain, list(cliques), offset
        self.total = 1.0

    def project(self, cl):
        return StubFactor(np.zeros(self.domain.size(cl)) + self.offset)

    def synthetic_data(self, rows=None, method='round'):
        import pandas as pd
        from mbi import Dataset
        return Dataset(pd.DataFrame({a: np.zeros(0, dtype=int) for a in self.domain.attrs}), self.domain)


class StubEngine:
    """stands in for FactoredInference inside the privately loaded aim module"""

    def __init__(self, domain, **kw):
        self.domain = domain
        self.iters = kw.get('iters', 1000)
        self.calls = 0
        self.offset = 0.0

    def estimate(self, measurements, total=None, engine='MD', callback=None, options={}):
        self.calls += 1
        if self.calls > 1:
            changed = ENV[0].free_choice('model-moved', 2)
            if changed:
                self.offset += 1e6
        return StubModel(self.domain, [m[3] for m in measurements], self.offset)


def run_path(spec, recs, sizes, env):
    aim = mechload.load('aim')
    saved = aim.FactoredInference
    aim.FactoredInference = StubEngine
    ENV[0] = env
    try:
        wl = [(tuple(c), 1.0) for c in spec['workload']]
        ds = L.make_dataset(recs, sizes)
        with E.installed(env), M.quiet():
            try:
                return aim.AIM(spec['eps'], spec['delta'], rounds=spec['rounds']).run(ds, wl), None
            except ValueError as ex:
                if 'probabilities' in str(ex) or 'scale < 0' in str(ex):
                    return None, str(ex)
                raise
    finally:
        aim.FactoredInference = saved
        ENV[0] = None


def run(acc, job, only=None):
    sizes = [2, 2, 2]
    spec = {'mech': 'aim', 'eps': job['eps'], 'delta': job['delta'], 'rounds': job['rounds'], 'workload': job['workload']}
    recs = L.base_datasets(sizes)['spread20']
    nbs = L.neighbours(recs, sizes, False)
    budget = L.budget_rho(spec['eps'], spec['delta'])

    def base(prefix):
        ctrl = E.Controller(prefix)
        env = L.LockstepEnv('record', ctrl=ctrl, seed=job['seed'], noise_alts=['pattern'])
        env.select_alts = 2
        out, raised = run_path(spec, recs, sizes, env)
        ctrl.events, ctrl.raised = L.trace_of(env), raised
        return ctrl
    cap = 3000 if job.get('tier') == 'thorough' else 600
    it = [base(only['prefix'])] if only is not None else E.explore(base, 99, cap=cap)
    n = 0
    for ctrl in it:
        n += 1
        case0 = {'aimledger': True, 'rounds': job['rounds'], 'workload': job['workload'], 'eps': job['eps'], 'delta': job['delta'],
                 'prefix': list(ctrl.choices), 'seed': job['seed']}
        acc.states += len(ctrl.points) + 1
        acc.transitions += len(ctrl.events)
        acc.traces += 1
        if ctrl.raised:
            acc.case(case0, nontrivial=False)
            acc.outcome('aim-ledger:raised-no-output')
            continue
        sig = tuple(round(e['scale'], 9) for e in ctrl.events if e['kind'] == 'noise')
        acc.counters['aim_ledger_paths'] += 1
        worst = 0.0
        for tag, what, nrecs in nbs:
            env = L.LockstepEnv('replay', trace=ctrl.events, seed=job['seed'])
            try:
                out, raised = run_path(spec, nrecs, sizes, env)
            except L.Divergence as ex:
                acc.outcome('aim-ledger:diverged')
                continue
            acc.traces += 1
            rho, eps, det = L.pair_cost(ctrl.events, L.trace_of(env))
            worst = max(worst, rho)
            case = dict(case0, nb=[tag, list(what)])
            acc.case(case, nontrivial=rho > 0)
            if not np.isfinite(rho) or O.delta_ref(rho, spec['eps']) > spec['delta'] * (1 + 1e-6):
                acc.violate(case, {'kind': 'overspend', 'mech': 'aim', 'ledger': True},
                            'AIM rounds=%r workload=%r, path %r (sigma sequence %r) vs neighbour %s %r: accumulated rho %.6g exceeds the budget %.6g (x%.4f)' % (
                                job['rounds'], job['workload'], ctrl.choices, sig, tag, what, rho, budget, rho / budget))
        acc.maximum('spend_over_budget:aim-ledger', worst / budget, case0)
        acc.outcome('aim-ledger:path-len-%d' % len(sig))
    if only is None and n >= cap:
        acc.cap('AIM ledger exploration capped at %d paths (rounds=%r)' % (cap, job['rounds']))
    acc.sample({'aim_ledger': True, 'rounds': job['rounds'], 'workload': job['workload'], 'path': 'all (selection in top-2, model-moved bit) sequences'})
