"""C10 - structural zeros carry no mass in any answer.

E1 x E3: zero specifications x measurement structures x solvers x iteration counts, and
BFS over call histories (length <= 2/3) on one estimator with and without warm start;
oracle: declared cells hold no mass in every answer that covers them."""
import itertools

import numpy as np

from ..core import Acc
from .. import envctl as E
from .. import oracle as O
from .. import meas as M
from .. import structs as S

PROPERTY = 'C10'
LEVEL = 'model_checking'
DESIGN_REF = 'DESIGN.md section 5 / C10'
TECHNIQUE = ('exhaustive enumeration of zero specifications x structures x solvers x iteration counts plus BFS over estimate-call histories '
             '(warm start on/off) on the real estimator; every covering answer (project, datavector, synthetic records) inspected at the declared cells')
RULE = ('case = (zero specification, history of (measurement list) calls, solver, iterations, warm start); zero specifications: cells of a measured '
        'clique, a value of a sub-clique, a cell of an unmeasured pair, a key in non-domain attribute order, two keys, a whole slice; '
        'histories: all sequences of length <= 2 (quick) / 3 (thorough) over 5 measurement lists (incl. the empty one); states = (estimator history) nodes, '
        'transitions = estimate calls. non-trivial = history length >= 1 with >= 1 measurement; distinct = digest of the case.')
LEVEL_TEXT = ('Every combination of the zero-specification, structure, solver and iteration alphabets is executed, and every call history up to '
              'the depth bound on a long-lived estimator (warm start on and off) is replayed; after each call all answers that cover a declared '
              'cell are inspected, including synthetic records generated under a controlled random environment that realises every cell with '
              'positive probability.')
LEVEL_NOTE = 'Domain (A,B,C) sizes (2,3,2); measured values seeded; 1e-12*total allowance because RDA/IG store log(mu + 1e-100).'
ASSUMPTIONS = ['synthetic records are generated under the C11 environment (largest-remainder realisation covering the support)']

ZEROS = {
    'cells': {('A', 'B'): [(0, 1), (1, 2)]},
    'subclique': {('B',): [(1,)]},
    'unmeasured': {('B', 'C'): [(0, 0)]},
    'order': {('B', 'A'): [(2, 0)]},
    'two-keys': {('A', 'B'): [(0, 0)], ('C',): [(1,)]},
    'slice': {('A', 'B'): [(0, 0), (0, 1), (0, 2)]},
    'rotated3': {('C', 'A', 'B'): [(1, 0, 2), (0, 1, 1)]},
    'rotated3b': {('B', 'C', 'A'): [(2, 1, 0)], ('B',): [(0,)]},
}
LISTS = {
    'AB': [('A', 'B')],
    'AB-BC': [('A', 'B'), ('B', 'C')],
    'AB-BC-CA': [('A', 'B'), ('B', 'C'), ('C', 'A')],
    'A-B': [('A',), ('B',)],
    'empty': [],    # no measurements at all: the solvers leave through their early exits (L == 0 / loss == 0)
}
ITERS = [1, 50, 300]

# 5-attribute alphabet ('wide' jobs): cliques that overlap pairwise around one attribute, a chain and a star, under three
# size assignments (the elimination / record-generation order depends on the sizes); cell indices are valid for every assignment
WATTRS = ['m', 'a', 'x', 'b', 'y']
WSIZES = {'s33322': [3, 3, 3, 2, 2], 's33232': [3, 3, 2, 3, 2], 's22332': [2, 2, 3, 3, 2]}
WLISTS = {
    'tri': [('m', 'a', 'x'), ('m', 'b', 'y'), ('m', 'a', 'b')],
    'chain5': [('m', 'a'), ('a', 'x'), ('x', 'b'), ('b', 'y')],
    'star': [('m', 'a'), ('m', 'x'), ('m', 'b'), ('m', 'y')],
}
WZEROS = {
    'mx': {('m', 'x'): [(0, 0), (1, 1)]},
    'max': {('m', 'a', 'x'): [(0, 1, 0), (1, 0, 1)]},
    'xy-unmeasured': {('x', 'y'): [(0, 1)]},
    'yb+m': {('y', 'b'): [(1, 0)], ('m',): [(1,)]},
}


def bounds(tier):
    return {'zero_specs': list(ZEROS), 'lists': list(LISTS), 'solvers': ['MD', 'RDA', 'IG'], 'iterations': ITERS,
            'history_depth': 2 if tier == 'quick' else 3, 'warm_start': [False, True],
            'wide': {'attrs': WATTRS, 'sizes': WSIZES, 'lists': list(WLISTS), 'zero_specs': list(WZEROS), 'iterations': [60]}}


def jobs(tier, seed):
    out = []
    for z in ZEROS:
        for eng in ['MD', 'RDA', 'IG']:
            out.append({'mode': 'single', 'zero': z, 'engine': eng, 'seed': seed})
            for warm in [False, True]:
                out.append({'mode': 'history', 'zero': z, 'engine': eng, 'warm': warm, 'depth': 2 if tier == 'quick' else 3, 'seed': seed})
    for z in WZEROS:
        for eng in ['MD', 'RDA', 'IG']:
            for sz in WSIZES:
                out.append({'mode': 'wide', 'zero': z, 'engine': eng, 'sizes': sz, 'seed': seed})
    return out


def zero_failures(model, zeros, with_synth=True, attrs=None, sizes=None):
    attrs, sizes = (M.ATTRS3, M.SIZES3) if attrs is None else (attrs, sizes)
    T = float(model.total)
    fails = []

    def inspect(vals, t, what):
        vals = np.asarray(vals, dtype=float)
        if not np.all(np.isfinite(vals)):
            fails.append(('non-finite', '%s contains NaN/inf' % what))
            return
        if abs(vals.sum() - T) > 1e-9 * T:
            fails.append(('sum', '%s sums to %.12g, total %.12g' % (what, vals.sum(), T)))
        for key, cells in zeros.items():
            if not set(key) <= set(t):
                continue
            m = O.marginal(vals, list(t), key)
            for c in cells:
                if m[tuple(c)] > 1e-12 * T:
                    fails.append(('mass-on-zero', '%s gives mass %.6g (total %g) to the structurally impossible cell %s=%r' % (what, m[tuple(c)], T, key, tuple(c))))
    seen = set()
    for key in zeros:
        for r in range(len(key), len(attrs) + 1):
            for sup in itertools.combinations(attrs, r):
                if not set(key) <= set(sup):
                    continue
                for t in itertools.permutations(sup):
                    if t in seen:
                        continue
                    seen.add(t)
                    f = model.project(t)
                    if tuple(f.domain.attrs) != tuple(t):
                        fails.append(('axes', 'project(%r) returned axes %r' % (t, f.domain.attrs)))
                        continue
                    inspect(f.values, t, 'project(%r)' % (t,))
    inspect(np.asarray(model.datavector(flatten=False)), attrs, 'datavector()')
    if with_synth:
        from .c11 import SynthEnv
        for method in ['round', 'sample']:
            ctrl = E.Controller([])
            env = SynthEnv(ctrl)
            with E.installed(env), M.quiet():
                ds = model.synthetic_data(rows=60, method=method)
            vals = ds.df.values.astype(int)
            table = np.zeros(sizes)
            np.add.at(table, tuple(vals.T), 1)
            if vals.shape[0] != 60:
                fails.append(('synthetic-rows', 'synthetic_data returned %d rows' % vals.shape[0]))
            for key, cells in zeros.items():
                m = O.marginal(table, attrs, key)
                for c in cells:
                    if m[tuple(c)] > 0:
                        fails.append(('synthetic-record-on-zero', 'synthetic_data(method=%s) produced %d record(s) in the structurally impossible cell %s=%r' % (method, int(m[tuple(c)]), key, tuple(c))))
    return fails


def problem(listname, li, seed, total=50.0):
    return M.Problem(M.ATTRS3, M.SIZES3, LISTS[listname], li, 'pos', seed, total=total, noise_mult=1.0 if total >= 1 else 0.01)


def run_history(zero, engine, warm, iters, hist, seed, check_all=True, total=50.0):
    """replay a history of estimate calls on one estimator; returns failures found after the LAST call
    (and after every call when check_all)"""
    from mbi import Domain, FactoredInference
    M.deterministic_eigsh()
    zeros = ZEROS[zero]
    eng = FactoredInference(Domain(M.ATTRS3, M.SIZES3), iters=iters, warm_start=warm, structural_zeros={k: list(v) for k, v in zeros.items()})
    fails = []
    for step, listname in enumerate(hist):
        prob = problem(listname, step, seed, total)
        with M.quiet():
            model = eng.estimate(prob.fresh_measurements(), total=total, engine=engine)
        if check_all or step == len(hist) - 1:
            f = zero_failures(model, zeros, with_synth=(step == len(hist) - 1))
            fails.extend((k, 'after call %d (%s): %s' % (step + 1, listname, m)) for k, m in f)
    return fails


def run_wide(zero, engine, sizes, listname, seed, iters=60, total=50.0):
    from mbi import Domain, FactoredInference
    M.deterministic_eigsh()
    zeros = WZEROS[zero]
    sz = WSIZES[sizes]
    eng = FactoredInference(Domain(WATTRS, sz), iters=iters, structural_zeros={k: list(v) for k, v in zeros.items()})
    prob = M.Problem(WATTRS, sz, WLISTS[listname], 0, 'pos', seed, total=total)
    with M.quiet():
        model = eng.estimate(prob.fresh_measurements(), total=total, engine=engine)
    return zero_failures(model, zeros, attrs=WATTRS, sizes=sz)


def report(acc, case, fails):
    acc.outcome('%s:%s' % (case['engine'], 'ok' if not fails else 'FAIL'))
    for kd in sorted({k for k, _ in fails}):
        acc.violate(case, {'kind': kd, 'engine': case['engine'], 'warm': case.get('warm', False)},
                    '%s: %s' % (case, '; '.join(m for k, m in fails if k == kd)[:800]))


def run_job(job):
    acc = Acc()
    if job['mode'] == 'single':
        for listname in LISTS:
            for iters in ITERS:
                total = 0.4 if iters == 50 else 50.0     # one of the iteration counts runs with a total below one record
                case = {'zero': job['zero'], 'engine': job['engine'], 'warm': False, 'iters': iters, 'hist': [listname], 'seed': job['seed'], 'total': total}
                acc.case(case)
                acc.states += 1
                acc.transitions += 1
                acc.traces += 1
                report(acc, case, run_history(job['zero'], job['engine'], False, iters, [listname], job['seed'], total=total))
        acc.sample(case)
        return acc
    if job['mode'] == 'wide':
        for listname in WLISTS:
            case = {'wide': True, 'zero': job['zero'], 'engine': job['engine'], 'sizes': job['sizes'], 'hist': [listname], 'iters': 60, 'seed': job['seed']}
            acc.case(case)
            acc.states += 1
            acc.transitions += 1
            acc.traces += 1
            report(acc, case, run_wide(job['zero'], job['engine'], job['sizes'], listname, job['seed']))
        acc.sample(case)
        return acc
    # BFS over histories (a state is the history that reaches it)
    names = list(LISTS)
    frontier = [[]]
    acc.states += 1
    for d in range(job['depth']):
        nxt = []
        for h in frontier:
            for n in names:
                hist = h + [n]
                case = {'zero': job['zero'], 'engine': job['engine'], 'warm': job['warm'], 'iters': 40, 'hist': hist, 'seed': job['seed']}
                acc.case(case)
                acc.states += 1
                acc.transitions += len(hist)
                acc.traces += 1
                report(acc, case, run_history(job['zero'], job['engine'], job['warm'], 40, hist, job['seed'], check_all=False))
                nxt.append(hist)
        frontier = nxt
    acc.sample(case)
    return acc


def replay(case):
    if case.get('wide'):
        fails = run_wide(case['zero'], case['engine'], case['sizes'], case['hist'][0], case['seed'], iters=case['iters'])
    else:
        fails = run_history(case['zero'], case['engine'], case['warm'], case['iters'], case['hist'], case['seed'], total=case.get('total', 50.0))
    for k, m in fails:
        print(k, m)
    return [{'key': {'kind': k, 'engine': case['engine']}, 'msg': m} for k, m in fails]
