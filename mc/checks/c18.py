"""C18 - approximate (local) estimation is valid, and exact when nothing is relaxed.

E1: measurement structures x totals x marginal oracles x iteration counts x noise levels on
the real LocalInference; oracle: validity of every measured table, loss vs uniform, the
estimator's own feasibility bound, and the certified optimum for disjoint families."""
import itertools

import numpy as np

from ..core import Acc
from .. import oracle as O
from .. import meas as M

PROPERTY = 'C18'
LEVEL = 'exploration'
DESIGN_REF = 'DESIGN.md section 5 / C18'
TECHNIQUE = ('exhaustive enumeration of measurement structures x oracles x iteration counts x totals x noise levels on the real LocalInference.estimate; '
             'validity / no-worse-than-uniform / feasibility clauses and comparison with a certified optimum on disjoint families')
RULE = ('case = (structure, oracle, iterations, total mode, noise level); structures: single, chain, 3-loop, disjoint pair, disjoint singles + pair, nested, '
        'duplicated clique, empty, two overlapping triples; oracles convex / approx / pairwise; iterations {1,2,3,5,20,60,200,600}; non-trivial = >= 2 measurements; '
        'distinct = digest of the case.')
LEVEL_TEXT = ('Every combination of the alphabet is executed; completion without error, validity of each measured table, a fit no worse than the uniform '
              'start and the estimator-enforced feasibility bound are checked on all of them, and on families of disjoint cliques (where local and '
              'global consistency coincide) the attained loss is compared with the certified optimum of exact estimation.')
LEVEL_NOTE = 'The restart/damping control flow depends on the loss trajectory; it is exercised through two noise levels and eight iteration counts, not enumerated symbolically; pairwise-convex needs cvxopt (absent).'
ASSUMPTIONS = ['exactness decided at 600 iterations with tolerance 1e-2 of the uniform-to-optimum range']

ATTRS = ['A', 'B', 'C', 'D']
SIZES = [2, 3, 2, 2]
STRUCTS = {
    'single': [('A', 'B')],
    'chain': [('A', 'B'), ('B', 'C'), ('C', 'D')],
    'loop3': [('A', 'B'), ('B', 'C'), ('C', 'A')],
    'disjoint-pair': [('A', 'B'), ('C', 'D')],
    'disjoint-singles-pair': [('A',), ('B',), ('C', 'D')],
    'nested': [('A', 'B'), ('A',)],
    'duplicated': [('A', 'B'), ('A', 'B')],
    'empty': [],
    'triples': [('A', 'B', 'C'), ('B', 'C', 'D')],
    'triples-single': [('A', 'B', 'C'), ('B', 'C', 'D'), ('C',)],
    'triples-pair': [('A', 'B', 'C'), ('B', 'C', 'D'), ('C', 'A')],
    # disjoint cliques each measured several times at different noise levels
    'disjoint-dup': [('A', 'B'), ('C', 'D'), ('A', 'B'), ('C', 'D'), ('A', 'B')],
    # non-empty measurement sets none of whose queries can express the overall count (partial cells, differences)
    'undetermined': [('A', 'B'), ('C', 'D')],
    'undetermined-loop': [('A', 'B'), ('B', 'C'), ('C', 'A')],
    'chain-zeros': [('A', 'B'), ('B', 'C'), ('C', 'D')],
    'pair-zeros': [('A', 'B'), ('B', 'C')],
}
# structural zeros that rule out a whole attribute value (validity clauses only: the uniform table is not feasible then)
ZEROS_FOR = {'chain-zeros': {('A', 'B'): [(0, 0), (0, 1), (0, 2)]}, 'pair-zeros': {('B',): [(1,)]}}
KINDS_FOR = {'undetermined': ['partial', 'diff'], 'undetermined-loop': ['diff', 'partial', 'diff']}
DISJOINT = ['single', 'disjoint-pair', 'disjoint-singles-pair', 'duplicated', 'disjoint-dup']
ITERS = [1, 2, 3, 5, 20, 60, 200, 600]
ORACLES = ['convex', 'approx', 'pairwise']


def bounds(tier):
    return {'structures': list(STRUCTS), 'oracles': ORACLES, 'iterations': ITERS if tier == 'thorough' else [1, 2, 3, 5, 20, 60, 600],
            'totals': ['given', 'None'], 'noise': ['low', 'high']}


def jobs(tier, seed):
    out = [{'listhistory': True, 'oracle': orc, 'seed': seed} for orc in ORACLES]
    out += [{'warmhistory': True, 'oracle': orc, 's': sn, 'seed': seed} for orc in ORACLES for sn in WARM_STRUCTS]
    its = ITERS if tier == 'thorough' else [1, 2, 3, 5, 20, 60]
    for sname in STRUCTS:
        for orc in ORACLES:
            if sname in ZEROS_FOR:
                out.append({'s': sname, 'oracle': orc, 'noise': 'low', 'iters': [20, 60], 'totals': ['given'], 'seed': seed})
                continue
            if sname in KINDS_FOR:
                out.append({'s': sname, 'oracle': orc, 'noise': 'low', 'iters': [1, 5, 60], 'totals': ['none', 'given'], 'seed': seed})
                continue
            for noise in ['low', 'high']:
                out.append({'s': sname, 'oracle': orc, 'noise': noise, 'iters': its, 'totals': ['given', 'none'] if tier == 'thorough' else ['given' if noise == 'low' else 'none'],
                            'seed': seed})
            if sname in DISJOINT or tier == 'thorough':
                out.append({'s': sname, 'oracle': orc, 'noise': 'low', 'iters': [600], 'totals': ['given'], 'seed': seed})
            # a supplied total below one record
            if sname in ('single', 'chain', 'disjoint-pair', 'loop3') or tier == 'thorough':
                out.append({'s': sname, 'oracle': orc, 'noise': 'low', 'iters': [20, 60] + ([600] if sname in DISJOINT else []), 'totals': ['given'], 'seed': seed, 'T': 0.25})
            # large total relative to the noise: many step halvings/restarts are needed before the first accepted step
            if sname in ('single', 'chain', 'disjoint-pair', 'nested', 'triples-single', 'triples') or tier == 'thorough':
                out.append({'s': sname, 'oracle': orc, 'noise': 'low', 'iters': [20, 26, 60] if tier == 'quick' else [20, 23, 26, 60, 200],
                            'totals': ['given'], 'seed': seed, 'T': 1e6})
    return out


def run_one(sname, orc, noise, iters, totmode, seed, T0=40.0):
    from mbi import Domain, LocalInference
    struct = STRUCTS[sname]
    si = list(STRUCTS).index(sname)
    prob = M.Problem(ATTRS, SIZES, struct, si, 'pos', seed, total=T0, noise_mult=0.5 if noise == 'low' else 3.0,
                     kinds=KINDS_FOR.get(sname, ['dense', 'sparse', 'prefix', 'linop']))
    zeros = ZEROS_FOR.get(sname, {})
    eng = LocalInference(Domain(ATTRS, SIZES), iters=iters, marginal_oracle=orc, **({'structural_zeros': {k: list(v) for k, v in zeros.items()}} if zeros else {}))
    # every projection is a freshly built tuple object (equal cliques are never the same object)
    ms = [(Q, y, s_, tuple(list(pr))) for (Q, y, s_, pr) in prob.fresh_measurements()]
    with M.quiet():
        model = eng.estimate(ms, total=T0 if totmode == 'given' else None)
    T = float(model.total)
    fails = []
    if totmode == 'given' and T != T0:
        fails.append(('total', 'model.total %r, supplied %r' % (T, T0)))
    f = 0.0
    fu = 0.0
    tables = {}
    for (Qd, y, s, cl, kd) in prob.dense:
        t = model.project(cl)
        v = np.asarray(t.datavector(), dtype=float)
        if tuple(t.domain.attrs) != tuple(cl):
            fails.append(('axes', 'project(%r) returned axes %r' % (cl, t.domain.attrs)))
            continue
        if not np.all(np.isfinite(v)):
            fails.append(('non-finite', 'table of %r has non-finite entries' % (cl,)))
            continue
        if v.min() < -1e-12 * T:
            fails.append(('negative', 'table of %r has a negative entry %.3g' % (cl, v.min())))
        if abs(v.sum() - T) > 1e-9 * T:
            fails.append(('not-normalised', 'table of %r sums to %.12g, total %.12g' % (cl, v.sum(), T)))
        tables[cl] = t
        r = (Qd @ v - y) / s
        f += 0.5 * float(r @ r)
        u = np.ones(v.size) * T / v.size
        r = (Qd @ u - y) / s
        fu += 0.5 * float(r @ r)
    info = {'f': f, 'fu': fu}
    if fails:
        return struct, fails, info
    for key_, cells_ in zeros.items():
        for cl_, t_ in tables.items():
            if set(key_) <= set(cl_):
                m_ = np.asarray(t_.project(key_).values, dtype=float)
                for c_ in cells_:
                    if m_[tuple(c_)] > 1e-9 * T:
                        fails.append(('mass-on-zero', 'table of %r gives mass %.4g to the structurally impossible cell %s=%r' % (cl_, m_[tuple(c_)], key_, tuple(c_))))
    if not zeros and f > fu * (1 + 1e-9) + 1e-12:
        fails.append(('worse-than-uniform', 'loss %.8g of the returned tables is worse than the uniform start %.8g (ratio %.3g)' % (f, fu, f / fu if fu else float('inf'))))
    if orc == 'convex' and len(tables) >= 2:
        pf = float(model.primal_feasibility(model.marginals)) if hasattr(model, 'marginals') else 0.0
        if not pf < 1.0:
            fails.append(('feasibility', 'primal_feasibility of the returned marginals is %.4g, the estimator enforces < 1' % pf))
        # the same quantity recomputed by the harness (mean L1 disagreement over the parent -> child edges of the region graph, by name)
        errs = []
        for r in model.cliques:
            for c_ in model.children[r]:
                a_ = O.marginal(np.asarray(model.marginals[r].values, dtype=float), list(model.marginals[r].domain.attrs), list(model.marginals[c_].domain.attrs))
                errs.append(float(np.abs(a_ - np.asarray(model.marginals[c_].values, dtype=float)).sum()))
        own = float(np.mean(errs)) if errs else 0.0
        info['own_feasibility'] = own
        if not own < 1.0:
            fails.append(('feasibility', 'mean parent/child disagreement of the returned marginals is %.4g (recomputed by the harness; primal_feasibility reports %.4g), the estimator enforces < 1' % (own, pf)))
        for (a, ta), (b, tb) in itertools.combinations(tables.items(), 2):
            sh = tuple(x for x in a if x in b)
            if sh and set(a) != set(b):
                d = float(np.abs(ta.project(sh).datavector() - tb.project(sh).datavector()).sum())
                # the bound is on the AVERAGE parent/child disagreement; two tables can differ by at most (number of region edges) x bound
                if d >= 2.0 * max(1, len(model.cliques)):
                    fails.append(('overlap', 'tables of %r and %r disagree on %r by %.4g (L1), feasibility bound 1.0' % (a, b, sh, d)))
    if sname in DISJOINT and iters >= 600 and totmode == 'given':
        pref, fref, gap = prob.reference(T)
        fU = prob.f(prob.uniform(T))
        rng_ = max(fU - fref, 1e-12)
        info['excess'] = (f - fref) / rng_
        if f - fref > 1e-2 * rng_ + 1e-9:
            fails.append(('not-optimal-disjoint', 'disjoint cliques: loss %.8g vs the certified optimum %.8g of exact estimation (excess %.3g of the range %.4g)' % (f, fref, (f - fref) / rng_, rng_)))
        if f < fref - gap - 1e-9 * max(1.0, fref):
            fails.append(('below-optimum', 'loss %.10g below the certified minimum %.10g' % (f, fref)))
    return struct, fails, info


def run_list_history(orc, seed):
    """one engine; the SAME list object is passed again after the caller appended a measurement to it; the result must be
    what a fresh engine returns for the final list (disjoint cliques: also the certified optimum)"""
    from mbi import Domain, LocalInference
    struct = STRUCTS['disjoint-singles-pair']
    prob = M.Problem(ATTRS, SIZES, struct, 4, 'pos', seed, total=40.0, noise_mult=0.5, kinds=['dense', 'sparse', 'prefix', 'linop'])
    ms_all = prob.fresh_measurements()
    eng = LocalInference(Domain(ATTRS, SIZES), iters=300, marginal_oracle=orc)
    lst = []
    fails = []
    for m in ms_all:
        lst.append(m)
        with M.quiet():
            model = eng.estimate(lst, total=40.0)
    f = 0.0
    for (Qd, y, s_, cl, kd) in prob.dense:
        v = np.asarray(model.project(cl).datavector(), dtype=float)
        r = (Qd @ v - y) / s_
        f += 0.5 * float(r @ r)
    pref, fref, gap = prob.reference(40.0)
    fU = prob.f(prob.uniform(40.0))
    rng_ = max(fU - fref, 1e-12)
    if f - fref > 1e-2 * rng_ + 1e-9:
        fails.append(('history-dependence', 'engine reused with the same (grown) list object: loss %.6g after the last call, certified optimum of the final list %.6g (excess %.3g of the range)' % (f, fref, (f - fref) / rng_)))
    return fails


def escalate(sname, orc, noise, iters, totmode, seed, T0, fails, info):
    """the exactness clause is asymptotic: a run that is not yet at the optimum after 600 iterations is repeated with 6000 and 20000
    iterations and only reported if it is still away from the optimum then (ill-conditioned repeated measurements plateau for a while)"""
    if iters < 600 or not any(k == 'not-optimal-disjoint' for k, _ in fails):
        return fails, info
    for more in (6000, 20000):
        _, f2, i2 = run_one(sname, orc, noise, more, totmode, seed, T0)
        if not any(k == 'not-optimal-disjoint' for k, _ in f2):
            info = dict(info, excess=i2.get('excess', 0.0), escalated_to=more)
            return [f for f in fails if f[0] != 'not-optimal-disjoint'], info
    return [(k, m + ' (still so after 6000 and 20000 iterations)') if k == 'not-optimal-disjoint' else (k, m) for k, m in fails], info


WARM_STRUCTS = ['chain', 'loop3', 'triples', 'disjoint-pair']


def run_warm_history(orc, sname, seed):
    """E3: three estimate calls on ONE engine built with warm_start=True (same measurements twice, then new answers); every call
    must complete and return valid tables that fit no worse than the uniform start"""
    from mbi import Domain, LocalInference
    struct = STRUCTS[sname]
    si = list(STRUCTS).index(sname)
    kinds = ['dense', 'sparse', 'prefix', 'linop']
    p1 = M.Problem(ATTRS, SIZES, struct, si, 'pos', seed, total=40.0, noise_mult=0.5, kinds=kinds)
    p2 = M.Problem(ATTRS, SIZES, struct, si + 1, 'pos', seed + 1, total=40.0, noise_mult=0.5, kinds=kinds)
    eng = LocalInference(Domain(ATTRS, SIZES), iters=60, marginal_oracle=orc, warm_start=True)
    fails = []
    step = 0
    try:
        with M.quiet():
            # the same measurements twice (the second call starts where the first one stopped), then new answers
            for step, p_ in enumerate((p1, p1, p2)):
                model = eng.estimate(p_.fresh_measurements(), total=40.0)
    except RecursionError as ex:
        return [('raises', 'call %d of a warm-started engine raised RecursionError (mirror_descent_auto restarts itself with a halved step for ever)' % (step + 1))], 'RecursionError'
    f = fu = 0.0
    for (Qd, y, s_, cl, kd) in p2.dense:
        v = np.asarray(model.project(cl).datavector(), dtype=float)
        if not (np.all(np.isfinite(v)) and v.min() >= -1e-12 * 40.0 and abs(v.sum() - 40.0) <= 1e-9 * 40.0):
            fails.append(('invalid', 'warm-started last call: table of %r is not a finite nonnegative table with the total (sum %.10g)' % (cl, v.sum())))
            continue
        r = (Qd @ v - y) / s_
        f += 0.5 * float(r @ r)
        u = np.ones(v.size) * 40.0 / v.size
        r = (Qd @ u - y) / s_
        fu += 0.5 * float(r @ r)
    if not fails and f > fu * (1 + 1e-9) + 1e-12:
        fails.append(('worse-than-uniform', 'warm-started last call: loss %.8g is worse than the uniform start %.8g' % (f, fu)))
    return fails, None


def run_job(job):
    acc = Acc()
    if job.get('warmhistory'):
        case = {'warmhistory': True, 'oracle': job['oracle'], 's': job['s'], 'seed': job['seed']}
        acc.case(case)
        fails, exc = run_warm_history(job['oracle'], job['s'], job['seed'])
        acc.outcome('warm-history:%s' % ('ok' if not fails else 'FAIL'))
        for kd, msg in fails:
            acc.violate(case, {'kind': kd, 'oracle': job['oracle'], 'iters': 60, 'exc': exc, 'warm': True}, '%s / %s / warm_start=True: %s' % (job['s'], job['oracle'], msg))
        acc.sample(case)
        return acc
    if job.get('listhistory'):
        case = {'listhistory': True, 'oracle': job['oracle'], 'seed': job['seed']}
        acc.case(case)
        fails = run_list_history(job['oracle'], job['seed'])
        acc.outcome('list-history:%s' % ('ok' if not fails else 'FAIL'))
        for kd, msg in fails:
            acc.violate(case, {'kind': kd, 'oracle': job['oracle'], 'iters': 300, 'exc': None}, msg)
        acc.sample(case)
        return acc
    for iters in job['iters']:
        for totmode in job['totals']:
            # iteration counts <= 5 are where the open finding F11 (final step never validated) manifests; their numeric alphabet is
            # fixed (seeds 0/1) so that the set of witnesses does not depend on VERIF_SEED
            seed = job['seed'] if iters > 5 else job['seed'] % 2
            case = {'s': job['s'], 'oracle': job['oracle'], 'noise': job['noise'], 'iters': iters, 'total': totmode, 'seed': seed, 'T': job.get('T', 40.0)}
            struct = STRUCTS[job['s']]
            acc.case(case, nontrivial=len(struct) >= 2)
            try:
                struct, fails, info = run_one(job['s'], job['oracle'], job['noise'], iters, totmode, seed, job.get('T', 40.0))
                fails, info = escalate(job['s'], job['oracle'], job['noise'], iters, totmode, seed, job.get('T', 40.0), fails, info)
            except Exception as ex:  # (i) estimate must complete without error
                import traceback
                from ..core import _classify_exception
                if not _classify_exception(traceback.extract_tb(ex.__traceback__)):
                    raise
                site = traceback.extract_tb(ex.__traceback__)[-1]
                fails, info = [('raises', 'estimate raised %s: %s (at %s:%d)' % (type(ex).__name__, ex, site.filename.split('/')[-1], site.lineno))], {}
                case['exc'] = type(ex).__name__
            if 'excess' in info:
                acc.maximum('disjoint_excess_over_range:' + job['oracle'], info['excess'], case)
            acc.outcome('%s:%s' % (job['oracle'], 'ok' if not fails else 'FAIL:' + fails[0][0]))
            for kd, msg in fails:
                acc.violate(case, {'kind': kd, 'oracle': job['oracle'], 'iters': iters, 'exc': case.get('exc')},
                            '%s / %s / iters=%d / total=%s / noise=%s: %s' % (job['s'], job['oracle'], iters, totmode, job['noise'], msg))
    acc.sample(case)
    return acc


def replay(case):
    if case.get('warmhistory'):
        fails, exc = run_warm_history(case['oracle'], case['s'], case['seed'])
        for k, m in fails:
            print(k, m)
        return [{'key': {'kind': k, 'warm': True}, 'msg': m} for k, m in fails]
    if case.get('listhistory'):
        fails = run_list_history(case['oracle'], case['seed'])
        for k, m in fails:
            print(k, m)
        return [{'key': {'kind': k}, 'msg': m} for k, m in fails]
    try:
        struct, fails, info = run_one(case['s'], case['oracle'], case['noise'], case['iters'], case['total'], case['seed'], case.get('T', 40.0))
        fails, info = escalate(case['s'], case['oracle'], case['noise'], case['iters'], case['total'], case['seed'], case.get('T', 40.0), fails, info)
    except Exception as ex:
        fails, info = [('raises', 'estimate raised %s: %s' % (type(ex).__name__, ex))], {}
    print(info)
    for k, m in fails:
        print(k, m)
    return [{'key': {'kind': k}, 'msg': m} for k, m in fails]
