"""C02 - every query path answers from one and the same joint distribution.

E1 x E3: for every small model, explicit-state BFS over the object's cache states
(no marginals / marginals from calculate_many_marginals / marginals assigned from
BP / after save-load); in every reachable state every query operation of the
alphabet is executed on a rebuilt object and compared with the explicit joint."""
import itertools
import os
import shutil
import tempfile
import zlib

import numpy as np

from ..core import Acc, digest
from .. import VERIF
from .. import structs as S
from .. import oracle as O
from .c01 import model_potentials

PROPERTY = 'C02'
LEVEL = 'model_checking'
DESIGN_REF = 'DESIGN.md section 5 / C02'
TECHNIQUE = ('explicit-state BFS over query-operation histories on the real GraphicalModel (states deduplicated by a digest of '
             'marginals/potentials/total), every ordered attribute tuple queried in every reachable state; brute-force joint oracle')
RULE = ('case = (model, history of operations, operation); models: all labelled graphs on <=4 attributes x presentations '
        '{edges, maximal} x size patterns x elimination orders {None, reversed} x value classes {generic, -inf cell} x totals; '
        'operations: project-all (every ordered tuple incl. () and full, as tuple and as list), many-all, many-each, krondot '
        '(menu of query matrices incl. single weighted rows), datavector (both flatten modes), saveload, assign-bp, synthetic (record generation, the library\'s own consumer of project). BFS runs to the fixpoint of the state '
        'graph. non-trivial = model with >= 2 cliques; distinct = digest of (model, history, op).')
LEVEL_TEXT = ('The reachable cache states of a model object are explored exhaustively (BFS to fixpoint, states rebuilt by replaying '
              'the history on a fresh object) and in each of them every query path of the API is exercised on every ordered attribute '
              'tuple and compared with the marginal of the single explicit joint in the requested layout.')
LEVEL_NOTE = ('Models bounded by 4 attributes (5-attribute chain/star/cycle added in thorough); potential values from a two-class '
              'alphabet seeded by VERIF_SEED; Kronecker query matrices from a 4-entry menu (all products for 3-attribute models in thorough).')
ASSUMPTIONS = ['pickle round trip happens inside /verif/.scratch and is removed afterwards',
               'tolerance rtol 1e-7, atol 1e-9*total; sums compared at 1e-9*total']

OPS = ['project-all', 'many-all', 'many-each', 'krondot', 'datavector', 'saveload', 'assign-bp', 'synthetic']


def hashseeds(tier):
    return [0] if tier == 'quick' else [0, 1, 2, 3]


def bounds(tier):
    return {'attributes': 4 if tier == 'quick' else '4 (+ 5-attribute chain, star, cycle)', 'history': 'BFS to fixpoint of the state graph',
            'tuples': 'all ordered tuples of distinct attributes (65 for 4 attributes), tuple and list form',
            'krondot': 'mixed + 4 uniform menus' + ('' if tier == 'quick' else ' + full 4^3 product on 3-attribute models'),
            'orders': ['None'] if tier == 'quick' else ['None', 'reversed']}


def jobs(tier, seed):
    out = []
    for k in range(1, 5):
        npairs = k * (k - 1) // 2
        for mask in range(1 << npairs):
            for pres in ['edges', 'maximal']:
                if pres == 'maximal' and mask == 0:
                    continue
                cfgs = [('main', None)]
                if tier == 'thorough':
                    cfgs += [('main', 'rev'), ('one', None)]
                elif k == 3:
                    cfgs += [('one', None)]
                out.append({'k': k, 'mask': mask, 'pres': pres, 'cfgs': cfgs, 'tier': tier, 'seed': seed})
    A = S.ATTRS
    # three 3-cliques in a strip (separators of two attributes; the outer cliques overlap in one attribute only)
    out.append({'k': 5, 'cliques': [(A[0], A[1], A[2]), (A[1], A[2], A[3]), (A[2], A[3], A[4])], 'name': 'strip5', 'cfgs': [('main', None)], 'tier': tier, 'seed': seed})
    if tier == 'thorough':
        for name, cl in [('chain5', [(A[i], A[i + 1]) for i in range(4)]), ('star5', [(A[0], A[i]) for i in range(1, 5)]),
                         ('cycle5', [(A[i], A[(i + 1) % 5]) for i in range(5)])]:
            out.append({'k': 5, 'cliques': cl, 'name': name, 'cfgs': [('main', None)], 'tier': tier, 'seed': seed})
    return out


def matrices_menu(sizes, kind, rng):
    out = []
    for i, n in enumerate(sizes):
        kd = kind if isinstance(kind, str) else kind[i]
        if kd == 'mixed':
            kd = ['identity', 'ones', 'prefix', 'generic'][i % 4]
        if kd == 'identity':
            out.append(np.eye(n))
        elif kd == 'ones':
            out.append(np.ones((1, n)))
        elif kd == 'prefix':
            out.append(np.tril(np.ones((n, n))))
        elif kd == 'int':
            out.append(np.tril(np.ones((n, n), dtype=int)) if i % 2 == 0 else np.eye(n, dtype=bool))   # integer / bool typed workloads
        elif kd == 'row':
            out.append(np.arange(1.0, n + 1.0)[None, :] * (0.5 if i % 2 == 0 else -2.0))   # one row, all entries non-zero, not the all-ones row
        else:
            out.append(np.random.RandomState(1000 + i + n).randn(2, n))
    return out


class World:
    """one model under test + its reference joint"""

    def __init__(self, k, cliques, sizes_name, order, vclass, total, rngseed, naming='letters'):
        self.attrs = S.rename(S.ATTRS[:k], naming)
        self.sizes = (S.SIZES_MAIN if sizes_name == 'main' else S.SIZES_ONE)[:k]
        self.cliques = [tuple(c) for c in S.rename([tuple(c) for c in cliques], naming)]
        self.order = None if order is None else list(reversed(self.attrs))
        self.total = total
        self.vclass = vclass
        rng = np.random.RandomState(rngseed % 2 ** 31)
        self.in_pots = []
        seen = []
        for c in self.cliques:
            if c in seen:
                continue
            seen.append(c)
            a = rng.randn(*[self.sizes[self.attrs.index(x)] for x in c])
            if vclass == 'x400':
                a = a * 40.0    # moderately large; offsets of +-1500 that cancel across a separator are added below
            if vclass == 'neginf':
                a.reshape(-1)[(len(seen) * 3) % a.size] = -np.inf
            self.in_pots.append((c, a))
        if not self.in_pots:
            # edgeless model: put generic potentials on singletons so that the distribution is not uniform
            for a_ in self.attrs:
                self.in_pots.append(((a_,), rng.randn(self.sizes[self.attrs.index(a_)])))
        self.joint = O.explicit_joint(self.attrs, self.sizes, self.in_pots, total)
        if vclass == 'x400':
            # same distribution, but with offsets of +-1500 that cancel between two potentials sharing an attribute
            self.in_pots = S.compensate(self.attrs, self.sizes, self.in_pots)
        self.tmp = None

    def fresh(self):
        from mbi import Domain, GraphicalModel
        dom = Domain(self.attrs, self.sizes)
        m = GraphicalModel(dom, list(self.cliques), total=self.total, elimination_order=self.order)
        m.potentials = model_potentials(m, self.attrs, self.sizes, self.in_pots)
        return m

    def ref(self, attrs):
        return O.marginal(self.joint, self.attrs, attrs)


def state_digest(m):
    parts = [repr(m.total), repr(m.cliques), repr(m.message_order)]
    for cl in m.cliques:
        parts.append(np.ascontiguousarray(m.potentials[cl].values).tobytes().hex())
    if hasattr(m, 'marginals'):
        for cl in m.cliques:
            parts.append(np.round(np.asarray(m.marginals[cl].values, dtype=float), 9).tobytes().hex())
    else:
        parts.append('no-marginals')
    return digest(parts)


def check_factor(w, got, attrs, what, fails):
    attrs = tuple(attrs)
    if tuple(got.domain.attrs) != attrs:
        fails.append('%s: requested %r but the answer is laid out as %r' % (what, attrs, got.domain.attrs))
        return
    ref = w.ref(attrs)
    vals = np.asarray(got.values, dtype=float)
    if vals.shape != ref.shape:
        fails.append('%s: shape %r, expected %r' % (what, vals.shape, ref.shape))
        return
    if not O.close(vals, ref, 1e-7, 1e-9 * w.total):
        fails.append('%s: differs from the explicit joint marginal by %.3g (total %g)' % (what, O.maxdiff(vals, ref), w.total))
    elif abs(vals.sum() - w.total) > 1e-9 * w.total:
        fails.append('%s: sums to %r, total is %r' % (what, vals.sum(), w.total))


def apply_op(w, m, op, tier, acc):
    """apply one operation of the alphabet to model m; returns (model afterwards, list of failures)"""
    fails = []
    attrs = w.attrs
    if op == 'project-all':
        for t in S.ordered_subtuples(attrs):
            for form in (tuple, list):
                got = m.project(form(t))
                check_factor(w, got, t, 'project(%r)' % (form(t),), fails)
                acc.evals += 1
    elif op == 'many-all':
        projs = [t for t in S.ordered_subtuples(attrs, maxlen=3, minlen=1)]
        ans = m.calculate_many_marginals(projs)
        for t in projs:
            if t not in ans:
                fails.append('calculate_many_marginals: no answer for %r' % (t,))
            else:
                check_factor(w, ans[t], t, 'calculate_many_marginals(all)[%r]' % (t,), fails)
            acc.evals += 1
    elif op == 'many-each':
        for t in S.ordered_subtuples(attrs, minlen=1):
            ans = m.calculate_many_marginals([t])
            if set(ans.keys()) != {t}:
                fails.append('calculate_many_marginals([%r]) returned keys %r' % (t, list(ans.keys())))
            else:
                check_factor(w, ans[t], t, 'calculate_many_marginals([%r])' % (t,), fails)
            acc.evals += 1
    elif op == 'krondot' and getattr(w, 'vclass', '') == 'x400':
        pass   # krondot works in probability space (exp of the potentials): magnitudes beyond ~700 overflow by design; C02 has no magnitude clause
    elif op == 'krondot':
        kinds = ['mixed', 'identity', 'ones', 'prefix', 'generic', 'row', 'int', [['row', 'identity', 'ones', 'row', 'prefix'][j % 5] for j in range(len(attrs))]]
        if tier == 'thorough' and len(attrs) == 3:
            kinds = kinds + [list(p) for p in itertools.product(['identity', 'ones', 'prefix', 'generic'], repeat=3)]
        src = ''.join(O.LETTERS[i] for i in range(len(attrs)))
        for kd in kinds:
            Ms = matrices_menu(w.sizes, kd, None)
            got = np.asarray(m.krondot(Ms), dtype=float)
            spec = ','.join([src] + [O.LETTERS[13 + i] + O.LETTERS[i] for i in range(len(attrs))]) + '->' + ''.join(O.LETTERS[13 + i] for i in range(len(attrs)))
            ref = np.einsum(spec, w.joint, *Ms)
            if got.shape != ref.shape or not O.close(got, ref, 1e-7, 1e-9 * w.total * max(1.0, np.abs(ref).max() / w.total)):
                fails.append('krondot(%s): differs from einsum with the explicit joint by %.3g' % (kd, O.maxdiff(got, ref)))
            acc.evals += 1
    elif op == 'datavector':
        v = np.asarray(m.datavector(), dtype=float)
        if v.shape != (w.joint.size,) or not O.close(v, w.joint.flatten(), 1e-7, 1e-9 * w.total):
            fails.append('datavector(): differs from the explicit joint by %.3g' % O.maxdiff(v, w.joint.flatten()))
        v2 = np.asarray(m.datavector(flatten=False), dtype=float)
        if v2.shape != w.joint.shape or not O.close(v2, w.joint, 1e-7, 1e-9 * w.total):
            fails.append('datavector(flatten=False): shape %r vs %r, diff %.3g' % (v2.shape, w.joint.shape, O.maxdiff(v2, w.joint)))
        acc.evals += 2
    elif op == 'saveload':
        from mbi import GraphicalModel
        d = tempfile.mkdtemp(prefix='c02-', dir=os.path.join(VERIF, '.scratch'))
        try:
            p = os.path.join(d, 'model.pkl')
            GraphicalModel.save(m, p)
            m2 = GraphicalModel.load(p)
        finally:
            shutil.rmtree(d, ignore_errors=True)
        if m2.total != m.total or list(m2.cliques) != list(m.cliques) or hasattr(m2, 'marginals') != hasattr(m, 'marginals'):
            fails.append('save/load changed total, cliques or cache presence')
        for t in [(), tuple(attrs), tuple(reversed(attrs))] + [(a,) for a in attrs]:
            check_factor(w, m2.project(t), t, 'load(save(model)).project(%r)' % (t,), fails)
            acc.evals += 1
        m = m2
    elif op == 'synthetic':
        # the library's own consumer of project(): generating records must leave the model as it was (later answers are checked by the BFS)
        from .. import meas as M
        st = np.random.get_state()
        np.random.seed(7)
        try:
            with M.quiet():
                ds = m.synthetic_data(rows=25, method='round')
        finally:
            np.random.set_state(st)
        if ds.df.shape != (25, len(attrs)):
            fails.append('synthetic_data(rows=25) returned a frame of shape %r' % (ds.df.shape,))
        acc.evals += 1
    elif op == 'assign-bp':
        m.marginals = m.belief_propagation(m.potentials)
        for cl in m.cliques:
            check_factor(w, m.marginals[cl], cl, 'belief_propagation[%r]' % (cl,), fails)
            acc.evals += 1
    else:
        raise ValueError(op)
    return m, fails


def build(w, hist, tier, acc):
    m = w.fresh()
    for op in hist:
        m, _ = apply_op(w, m, op, tier, Acc())
    return m


def explore_world(acc, w, desc, tier):
    """BFS over histories to the fixpoint of the state graph"""
    m0 = w.fresh()
    seen = {state_digest(m0)}
    frontier = [[]]
    acc.states += 1
    depth = 0
    while frontier:
        nxt = []
        for hist in frontier:
            for op in OPS:
                m = build(w, hist, tier, acc)
                before = [np.array(m.potentials[cl].values, copy=True) for cl in m.cliques]
                m2, fails = apply_op(w, m, op, tier, acc)
                acc.transitions += 1
                acc.traces += 1
                case = dict(desc, history=hist, op=op)
                acc.case({'d': desc, 'h': hist, 'o': op}, nontrivial=len(m.cliques) >= 2)
                after = [np.asarray(m2.potentials[cl].values) for cl in m2.cliques]
                if len(before) != len(after) or any(not np.array_equal(b, a) for b, a in zip(before, after)):
                    fails.append('operation %s changed the model parameters' % op)
                if fails:
                    acc.violate(case, {'kind': 'query-mismatch', 'op': op, 'cached': hasattr(m, 'marginals') and op != 'assign-bp' or bool(hist)},
                                'history %r then %s: %s' % (hist, op, '; '.join(fails[:4])))
                acc.outcome('%s:%s' % (op, 'ok' if not fails else 'FAIL'))
                dg = state_digest(m2)
                if dg not in seen:
                    seen.add(dg)
                    acc.states += 1
                    nxt.append(hist + [op])
        frontier = nxt
        depth += 1
        if depth > 6:
            acc.cap('BFS depth cap 6 reached before the state graph closed')
            break
    acc.maximum('bfs_depth_to_fixpoint', depth)
    acc.maximum('states_per_model', len(seen))


def worlds_for(job):
    k = job['k']
    attrs = S.ATTRS[:k]
    if 'cliques' in job:
        cliques = [tuple(c) for c in job['cliques']]
        tag = job['name']
    else:
        cliques = S.present(attrs, S.graph_by_mask(k, job['mask']), job['pres'])
        tag = '%d/%d/%s' % (k, job['mask'], job['pres'])
    for sizes_name, order in job['cfgs']:
        for vi, vclass in enumerate(['generic', 'neginf', 'x400', 'scrambled-names']):
            if vclass in ('x400', 'scrambled-names') and (sizes_name != 'main' or order is not None):
                continue
            total = [1.0, 7.5, 0.25][(job.get('mask', 0) + vi) % 3]
            desc = {'model': tag, 'k': k, 'cliques': [list(c) for c in cliques], 'sizes': sizes_name, 'order': order,
                    'vclass': vclass, 'total': total, 'seed': job['seed']}
            rngseed = zlib.crc32(repr((job['seed'], tag, sizes_name, vclass)).encode())
            yield desc, World(k, cliques, sizes_name, order, 'generic' if vclass == 'scrambled-names' else vclass, total, rngseed,
                              naming='scrambled' if vclass == 'scrambled-names' else 'letters')


def run_job(job):
    acc = Acc()
    for desc, w in worlds_for(job):
        if w.joint is None:
            acc.outcome('precondition-no-finite-cell')
            continue
        explore_world(acc, w, desc, job['tier'])
        acc.sample(dict(desc, ops=OPS))
    return acc


def replay(case):
    acc = Acc()
    tag = case['model']
    rngseed = zlib.crc32(repr((case['seed'], tag, case['sizes'], case['vclass'])).encode())
    w = World(case['k'], [tuple(c) for c in case['cliques']], case['sizes'], case['order'], 'generic' if case['vclass'] == 'scrambled-names' else case['vclass'],
              case['total'], rngseed, naming='scrambled' if case['vclass'] == 'scrambled-names' else 'letters')
    m = build(w, case['history'], 'thorough', acc)
    m2, fails = apply_op(w, m, case['op'], 'thorough', acc)
    for f in fails:
        print(f)
    return [{'key': {'kind': 'query-mismatch', 'op': case['op']}, 'msg': '; '.join(fails[:6])}] if fails else []
