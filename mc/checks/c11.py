"""C11 - synthetic records faithfully realise the model.

E2: the random environment of synthetic_data (choice / shuffle) is owned by a
controller; the default execution and all executions with <= d deviations are run
for every (model, total, rows, method) of the alphabet; oracle = explicit joint."""
import itertools
import zlib

import numpy as np

from ..core import Acc
from .. import envctl as E
from .. import oracle as O
from .. import structs as S
from .. import meas as M
from .c01 import model_potentials

PROPERTY = 'C11'
LEVEL = 'model_checking'
DESIGN_REF = 'DESIGN.md section 5 / C11'
TECHNIQUE = ('stateless exploration of the real synthetic_data under an owned random environment (choice/shuffle answers decided by the '
             'harness, iterative deviation bounding); explicit-joint oracle on the output and on the sampler arguments')
RULE = ('case = (model, value class, total, rows, method, decision list); models: all 8 graphs on 3 attributes + 4-attribute chain and star; '
        'value classes generic / zero cells / zero values / compensated (+-900 g(a) on two potentials sharing a); totals {1, 7.9, 1000.5}; rows {default,1,2,3,7,10,100,1000,10000} (+1e5,1e6 thorough); '
        'round mode: every decision point (support subset returned by choice(replace=False), shuffle permutation) deviated up to the bound; '
        'sample mode: the sampler is answered by the deterministic largest-remainder realisation of its own p. states = decision points '
        'reached, transitions = environment answers given. non-trivial = model with an edge and rows >= 2; distinct = digest of (case, decisions).')
LEVEL_TEXT = ('All executions of synthetic_data within the deviation bound are enumerated with the environment answers under harness control, '
              'so the claim holds for every answer sequence within the bound rather than for sampled seeds. Row count, range, zero support and '
              'an N-independent rounding bound are checked on every output; in sampling mode the p vectors handed to the sampler are compared '
              'with the conditionals of the explicit joint, which decides "follows the model distribution" without statistics.')
LEVEL_NOTE = ('Deviation bound 1 (quick) / 2 (thorough, rows <= 100); rounding bound B = number of per-group rounding steps of the execution '
              '(N-independent); the quality of numpy.random itself is trusted.')
ASSUMPTIONS = ['numpy argument validation of choice() is reproduced by the controller',
               'sample-mode oracle mirrors the documented generation scheme: columns in reverse elimination order, parents = already generated attributes sharing a model clique']

TOTALS = [1.0, 7.9, 1000.5]


def bounds(tier):
    return {'deviations': 1 if tier == 'quick' else '2 for rows <= 100, 1 otherwise',
            'rows': ['default', 1, 2, 3, 7, 10, 100, 1000, 10000] + ([] if tier == 'quick' else [100000, 1000000]),
            'models': '8 graphs on 3 attributes, chain4, star4, triple3, cycle4, diamond4, two disconnected pairs, two models with names sorting differently from the domain order; x 3 value classes x 3 totals'}


def model_list():
    out = [{'k': 3, 'edges': S.graph_by_mask(3, m), 'name': 'g3-%d' % m} for m in range(8)]
    A = S.ATTRS
    out.append({'k': 4, 'edges': [(A[0], A[1]), (A[1], A[2]), (A[2], A[3])], 'name': 'chain4'})
    out.append({'k': 4, 'edges': [(A[0], A[1]), (A[0], A[2]), (A[0], A[3])], 'name': 'star4'})
    out.append({'k': 3, 'edges': [(A[0], A[1], A[2])], 'name': 'triple3'})
    # chordless 4-cycle (needs fill-in: the generation parents must come from the triangulated cliques) and the diamond
    out.append({'k': 4, 'edges': [(A[0], A[1]), (A[1], A[2]), (A[2], A[3]), (A[3], A[0])], 'name': 'cycle4', 'scale': 2.5})
    out.append({'k': 4, 'edges': [(A[0], A[1]), (A[1], A[2]), (A[2], A[3]), (A[3], A[0]), (A[0], A[2])], 'name': 'diamond4'})
    out.append({'k': 4, 'edges': [(A[0], A[1]), (A[2], A[3])], 'name': 'two-edges4', 'scale': 2.0})
    out.append({'k': 4, 'edges': [(A[3], A[2]), (A[1], A[0])], 'name': 'two-edges4-rev', 'scale': 2.0})
    # attribute names whose sort order differs from the domain order (e, c, a, dd), with columns that have two parents
    out.append({'k': 3, 'edges': [(A[0], A[1], A[2])], 'name': 'triple3-scrambled', 'naming': 'scrambled'})
    out.append({'k': 4, 'edges': [(A[0], A[1]), (A[1], A[2]), (A[2], A[3]), (A[3], A[0]), (A[0], A[2])], 'name': 'diamond4-scrambled', 'naming': 'scrambled'})
    # three 3-cliques overlapping pairwise around one attribute: a column whose parents come from two different cliques
    out.append({'k': 5, 'edges': [(A[0], A[1], A[2]), (A[0], A[3], A[4]), (A[0], A[1], A[3])], 'sizes': [3, 3, 3, 2, 2], 'name': 'three-triples5'})
    # an attribute with 200 values (codes beyond the range of a signed byte)
    out.append({'k': 2, 'edges': [(A[0], A[1])], 'sizes': [200, 3], 'name': 'wide2', 'scale': 0.3, 'rows': [None, 2, 50, 1000], 'bound': 0})
    # 4-cycle with a pendant attribute, built with a randomised (int) elimination-order search
    out.append({'k': 5, 'edges': [(A[0], A[1]), (A[1], A[2]), (A[2], A[3]), (A[3], A[0]), (A[3], A[4])], 'sizes': [2, 3, 6, 6, 2], 'elim': 20, 'name': 'cycle4-pendant-int', 'rows': [None, 1, 3, 10, 100, 1000], 'bound': 0})
    return out


def jobs(tier, seed):
    out = []
    for mi in range(len(model_list())):
        for vc in ['generic', 'zero-cells', 'zero-values', 'compensated']:
            out.append({'mi': mi, 'vclass': vc, 'tier': tier, 'seed': seed})
    return out


class World:
    def __init__(self, mi, vclass, total, seed, with_marginals=False):
        from mbi import Domain, GraphicalModel
        spec = model_list()[mi]
        k = spec['k']
        self.attrs = S.rename(S.ATTRS[:k], spec.get('naming', 'letters'))
        self.sizes = list(spec.get('sizes', [2, 3, 2, 2][:k]))
        self.elim = spec.get('elim')
        self.seed = seed
        self.total = total
        cliques = [tuple(S.rename(tuple(e), spec.get('naming', 'letters'))) for e in spec['edges']]
        rng = np.random.RandomState(zlib.crc32(repr((seed, mi, vclass)).encode()) % 2 ** 31)
        pots = []
        for c in cliques:
            pots.append((c, spec.get('scale', 1.0) * rng.randn(*[self.sizes[self.attrs.index(a)] for a in c])))
        for a in self.attrs:
            pots.append(((a,), 0.5 * rng.randn(self.sizes[self.attrs.index(a)])))
        if vclass == 'zero-cells':
            for i, (c, arr) in enumerate(pots):
                if len(c) >= 2 or not cliques:
                    arr.reshape(-1)[(i + 1) % arr.size] = -np.inf
        elif vclass == 'zero-values':
            # value 1 of B impossible (B has 3 values); with an edge through B this is a whole slice
            for c, arr in pots:
                if c == (self.attrs[1],):
                    arr[1] = -np.inf
        self.pots = pots
        self.cliques = cliques
        self.with_marginals = with_marginals
        if vclass == 'compensated':
            # +-900*g(a) added to two potentials that share attribute a: the distribution is that of the plain potentials (the
            # reference), but slices of single clique tables lie ~1800 nats apart
            self.pots = S.compensate(self.attrs, self.sizes, pots, K=900.0)
        self.model = self.fresh_model()
        self.joint = O.explicit_joint(self.attrs, self.sizes, pots, total)

    def fresh_model(self):
        """a new model object per execution (no state shared between explored executions)"""
        from mbi import Domain, GraphicalModel
        dom = Domain(self.attrs, self.sizes)
        if self.elim is not None:
            np.random.seed(self.seed + 11)    # the randomised order search draws from numpy.random: owned here
        m = GraphicalModel(dom, self.cliques + [(a,) for a in self.attrs if not any(a in c for c in self.cliques)], total=self.total, elimination_order=self.elim)
        m.potentials = model_potentials(m, self.attrs, self.sizes, self.pots)
        if self.with_marginals and O.explicit_joint(self.attrs, self.sizes, self.pots, self.total) is not None:
            m.marginals = m.belief_propagation(m.potentials)   # as models returned by the estimators carry them
        return m


class SynthEnv:
    def __init__(self, ctrl):
        self.ctrl = ctrl
        self.sample_calls = []
        self.ncols = 0

    def choice(self, a, size=None, replace=True, p=None):
        n = E.validate_p(a, size, replace, p)
        pp = np.asarray(p, dtype=float)
        if replace:
            cnt = E.largest_remainder(int(size), pp)
            self.sample_calls.append((int(size), pp.copy()))
            self.ncols += 1
            self.ctrl.log.append(('sample', int(size)))
            return np.repeat(np.arange(n), cnt)
        sup = list(np.nonzero(pp > 0)[0])
        alts = E.subsets_menu(sup, int(size))
        c = self.ctrl.decide('subset', len(alts))
        self.ctrl.log.append(('subset', int(size), len(sup)))
        return np.array(alts[c], dtype=int)

    def shuffle(self, x):
        self.ncols += 1
        n = len(x)
        c = self.ctrl.decide('shuffle', 3 if n >= 3 else (2 if n == 2 else 1))
        self.ctrl.log.append(('shuffle', n))
        if c == 1:
            x[:] = x[::-1].copy()
        elif c == 2:
            x[:] = np.roll(x, 1)


def check_output(w, ds, rows_expected, method, env):
    fails = []
    attrs, sizes = w.attrs, w.sizes
    from mbi import Dataset
    if not isinstance(ds, Dataset):
        return [('type', 'synthetic_data returned %r' % type(ds))], 0.0
    df = ds.df
    if list(df.columns) != list(attrs) or tuple(ds.domain.attrs) != tuple(attrs) or tuple(ds.domain.shape) != tuple(sizes):
        fails.append(('domain', 'columns %r / domain %r differ from the model domain' % (list(df.columns), ds.domain)))
        return fails, 0.0
    if df.shape[0] != rows_expected:
        fails.append(('row-count', 'returned %d rows, expected %d' % (df.shape[0], rows_expected)))
    vals = df.values
    if vals.size and (not np.issubdtype(vals.dtype, np.integer) and not np.all(np.equal(np.mod(vals.astype(float), 1), 0))):
        fails.append(('range', 'non-integer values in the frame'))
        return fails, 0.0
    vals = vals.astype(int)
    if vals.size and (vals.min() < 0 or np.any(vals.max(axis=0) >= np.array(sizes))):
        fails.append(('range', 'a value is outside its attribute domain'))
        return fails, 0.0
    table = np.zeros(sizes)
    np.add.at(table, tuple(vals.T), 1)
    if np.any(table[w.joint <= 0] > 0):
        cell = np.argwhere((w.joint <= 0) & (table > 0))[0]
        fails.append(('zero-support', '%d record(s) in cell %r to which the model gives zero probability' % (int(table[tuple(cell)]), dict(zip(attrs, cell.tolist())))))
    N = df.shape[0]
    worst = 0.0
    if method == 'round':
        B = max(env.ncols, len(attrs))
        for cl in w.model.cliques:
            got = O.marginal(table, attrs, cl)
            exp = O.marginal(w.joint, attrs, cl) * (N / w.total)
            err = float(np.abs(got - exp).max()) if got.size else 0.0
            worst = max(worst, err)
            if not err < B:
                fails.append(('rounding-error', 'clique %r: counts differ from the expected counts by %.3f with %d rows (bound %d = number of per-group rounding steps)' % (cl, err, N, B)))
    else:
        # reference process: columns in reverse elimination order, parents = generated attributes sharing a clique
        order = list(w.model.elimination_order)[::-1]
        used = []
        ref_calls = []
        for col in order:
            nb = set()
            for cl in w.model.cliques:
                if col in cl:
                    nb |= set(cl)
            parents = [a for a in used if a in nb]
            tgt = parents + [col]
            jt = O.marginal(w.joint, attrs, tgt)
            ct = O.marginal(table, attrs, tgt)
            jall = O.marginal(w.joint, attrs, used + [col])
            for g in itertools.product(*[range(sizes[attrs.index(a)]) for a in parents]):
                n_g = int(round(ct[g].sum()))
                if n_g == 0:
                    continue
                if jt[g].sum() <= 0:
                    continue  # already reported as zero-support
                p = jt[g] / jt[g].sum()
                ref_calls.append((n_g, p))
                expc = E.largest_remainder(n_g, p)
                if not np.array_equal(np.round(ct[g]).astype(int), expc):
                    fails.append(('conditional', 'column %s given %r: realised counts %r but the sampler answered with the realisation %r of the model conditional %r' % (
                        col, dict(zip(parents, g)), np.round(ct[g]).astype(int).tolist(), expc.tolist(), np.round(p, 6).tolist())))
            # chain rule validity: P(col | parents) == P(col | all generated attributes)
            others = [a for a in used if a not in parents]
            if others:
                full = O.marginal(w.joint, attrs, parents + others + [col])
                for g in itertools.product(*[range(sizes[attrs.index(a)]) for a in parents]):
                    if jt[g].sum() <= 0:
                        continue
                    p = jt[g] / jt[g].sum()
                    for o in itertools.product(*[range(sizes[attrs.index(a)]) for a in others]):
                        fo = full[g + o]
                        if fo.sum() > 1e-300 * w.total and np.abs(fo / fo.sum() - p).max() > 1e-9:
                            fails.append(('chain-rule', 'P(%s | %r) depends on the other generated attributes %r: the generation scheme does not follow the model' % (col, parents, others)))
                            break
            used.append(col)
        rec = sorted((n, tuple(np.round(p, 9))) for n, p in env.sample_calls)
        exp = sorted((n, tuple(np.round(p, 9))) for n, p in ref_calls)
        if rec != exp:
            fails.append(('sampler-arguments', 'the (size, p) arguments handed to the sampler are not the conditionals of the explicit joint: %d calls, %d expected; first difference %r vs %r' % (
                len(rec), len(exp), next((a for a, b in zip(rec, exp) if a != b), rec[-1] if rec else None), next((b for a, b in zip(rec, exp) if a != b), exp[-1] if exp else None))))
    return fails, worst


FIRST_CALLS = {None: None, 'round5': (5, 'round'), 'sample7': (7, 'sample'), 'round-default': (None, 'round')}


def model_state(m):
    parts = [np.array(m.potentials[cl].values, copy=True) for cl in m.cliques]
    if hasattr(m, 'marginals'):
        parts += [np.array(m.marginals[cl].values, copy=True) for cl in m.cliques]
    return parts


def run_exec(w, rows, method, prefix, first=None):
    model = w.fresh_model()
    w.model = model
    state0 = model_state(model)
    if first is not None:
        r1, m1 = FIRST_CALLS[first]
        with E.installed(SynthEnv(E.Controller([]))), M.quiet():
            model.synthetic_data(rows=r1, method=m1) if r1 is not None else model.synthetic_data(method=m1)
    ctrl = E.Controller(prefix)
    env = SynthEnv(ctrl)
    with E.installed(env), M.quiet():
        ds = model.synthetic_data(rows=rows, method=method) if rows is not None else model.synthetic_data(method=method)
    state1 = model_state(model)
    env.model_mutated = len(state0) != len(state1) or any(not np.array_equal(a, b, equal_nan=True) for a, b in zip(state0, state1))
    return ctrl, env, ds


def explore_case(acc, job, w, total, rows, method, bound, only_prefix=None, first=None):
    rows_expected = int(total) if rows is None else rows

    def run(prefix):
        ctrl, env, ds = run_exec(w, rows, method, prefix, first)
        ctrl.env, ctrl.ds = env, ds
        return ctrl
    it = [run(only_prefix)] if only_prefix is not None else E.explore(run, bound, cap=4000)
    nexec = 0
    for ctrl in it:
        nexec += 1
        case = {'mi': job['mi'], 'vclass': job['vclass'], 'total': total, 'rows': rows, 'method': method, 'prefix': list(ctrl.choices) if ctrl.deviations else [],
                'seed': job['seed'], 'marginals': w.with_marginals, 'first': first}
        acc.case(case, nontrivial=rows_expected >= 2 and len(w.model.cliques) < len(w.attrs))
        acc.traces += 1
        acc.states += len(ctrl.points) + 1
        acc.transitions += len(ctrl.log)
        fails, worst = check_output(w, ctrl.ds, rows_expected, method, ctrl.env)
        if ctrl.env.model_mutated:
            fails.append(('model-mutated', 'synthetic_data changed the parameters / cached marginals of the model it was called on'))
        acc.maximum('round_error_over_nattrs', worst / len(w.attrs), case)
        acc.outcome('%s:dev%d:%s' % (method, ctrl.deviations, 'ok' if not fails else 'FAIL'))
        for kd in sorted({k for k, _ in fails}):
            acc.violate(case, {'kind': kd, 'method': method}, '%s rows=%r total=%g: %s' % (model_list()[job['mi']]['name'], rows, total,
                                                                                             '; '.join(m for k, m in fails if k == kd)[:700]))
    if only_prefix is None and nexec >= 4000:
        acc.cap('deviation exploration capped at 4000 executions for one (model, rows) case')
    return nexec


def rows_menu(tier):
    r = [None, 1, 2, 3, 7, 10, 100, 1000, 10000]
    if tier == 'thorough':
        r += [100000, 1000000]
    return r


def run_job(job):
    acc = Acc()
    tier = job['tier']
    for ti, total in enumerate(TOTALS):
        w = World(job['mi'], job['vclass'], total, job['seed'])
        if w.joint is None:
            acc.outcome('precondition')
            continue
        spec_ = model_list()[job['mi']]
        for rows in (spec_.get('rows') or rows_menu(tier)):
            if rows is not None and rows >= 100000 and ti != 2:
                continue
            for method in ['round', 'sample']:
                n = int(total) if rows is None else rows
                bound = 0 if method == 'sample' else (1 if (tier == 'quick' or n > 100) else 2)
                if n >= 100000:
                    bound = 0
                bound = min(bound, spec_.get('bound', bound))    # wide domains: default executions only (hundreds of rounding steps each)
                explore_case(acc, job, w, total, rows, method, bound)
        # models as returned by the estimators (carrying cached marginals), and a second call on the same object (history)
        wm = World(job['mi'], job['vclass'], total, job['seed'], with_marginals=True)
        for rows in [None, 3, 100, 10000]:
            for method in ['round', 'sample']:
                for first in ([None, 'round5', 'sample7'] if rows in (100, 10000) else [None]):
                    explore_case(acc, job, wm, total, rows, method, 0, first=first)
    acc.sample({'model': model_list()[job['mi']], 'vclass': job['vclass'], 'total': 7.9, 'rows': 10, 'method': 'round', 'decisions': [0, 1, 0, 2]})
    return acc


def replay(case):
    acc = Acc()
    w = World(case['mi'], case['vclass'], case['total'], case['seed'], with_marginals=case.get('marginals', False))
    explore_case(acc, case, w, case['total'], case['rows'], case['method'], 0, only_prefix=case['prefix'], first=case.get('first'))
    for v in acc.violations:
        print(v['msg'])
    return acc.violations
