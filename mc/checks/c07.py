"""C07 - zCDP <-> (eps, delta) conversions are sound, tight and mutually inverse.

Grid enumeration (log grids + seeded off-grid points) with independent oracles,
plus a trace monitor (sys.settrace) that evaluates the loop invariants of the three
bisection loops in every loop state."""
import importlib.util
import math
import os
import sys

import numpy as np

from ..core import Acc
from .. import REPO
from .. import oracle as O

PROPERTY = 'C07'
LEVEL = 'model_checking'
DESIGN_REF = 'DESIGN.md section 5 / C07'
TECHNIQUE = ('exhaustive log-grid enumeration of cdp_delta/cdp_eps/cdp_rho against independent oracles, plus a sys.settrace monitor that '
             'checks the bisection-loop invariants in every loop state of the real functions')
RULE = ('case = (function, grid point); grids: rho in [1e-6,1e2], eps in [1e-3,1e2], delta in [1e-15,0.5] (17x11x8 quick, 65x41x31 thorough) plus '
        'VERIF_SEED-drawn off-grid points; trace monitor: every iteration of the three bisection loops on a sub-grid is a state, every bound '
        'update a transition (a loop that cannot be located in the source is outcome trace-unavailable, not an error); types jobs: arguments spelled as int / np.int64 / np.float32 / 0-d array in either position against the float call. non-trivial = every grid point; distinct = digest of (function, arguments).')
LEVEL_TEXT = ('The conversions are evaluated on dense log grids covering the stated ranges; soundness, tightness against an independent minimiser of '
              'the Renyi-order bound, the exact Gaussian trade-off, monotonicity between adjacent grid points and the inverse relations are '
              'checked at every point. On a sub-grid every loop state of the binary searches is observed and the invariants written next to '
              'the bound variables are evaluated, which is model checking of the search loops themselves.')
LEVEL_NOTE = 'Continuous arguments are covered by grids, not intervals; tightness is required where the optimum is <= 0.5 (the documented alpha >= 1.01 floor binds above).'
ASSUMPTIONS = ['scipy.stats.norm.cdf trusted for the exact Gaussian delta', 'log of the Renyi-order bound is convex in alpha (used by the reference minimiser)']

_MOD = None


def cdp():
    global _MOD
    if _MOD is None:
        import matplotlib
        matplotlib.use('Agg')
        path = os.path.join(REPO, 'mechanisms', 'cdp2adp.py')
        spec = importlib.util.spec_from_file_location('verif_cdp2adp', path)
        _MOD = importlib.util.module_from_spec(spec)
        spec.loader.exec_module(_MOD)
    return _MOD


def grids(tier, seed):
    nr, ne, nd = (17, 11, 8) if tier == 'quick' else (65, 41, 31)
    rng = np.random.RandomState(seed + 77)
    rhos = sorted(list(np.logspace(-6, 2, nr)) + list(10 ** rng.uniform(-6, 2, 3)))
    epss = sorted(list(np.logspace(-3, 2, ne)) + list(10 ** rng.uniform(-3, 2, 3)))
    deltas = sorted(list(np.logspace(-15, math.log10(0.5), nd)) + list(10 ** rng.uniform(-15, math.log10(0.5), 2)))
    return [float(x) for x in rhos], [float(x) for x in epss], [float(x) for x in deltas]


def bounds(tier):
    return {'grid': '17x11x8 (+ off-grid points)' if tier == 'quick' else '65x41x31 (+ off-grid points)',
            'trace_subgrid': '3x3 per function', 'loop_states_per_call': 1000}


def jobs(tier, seed):
    rhos, epss, deltas = grids(tier, seed)
    out = [{'fn': 'delta', 'tier': tier, 'seed': seed, 'rows': list(range(i, min(i + 8, len(rhos))))} for i in range(0, len(rhos), 8)]
    for j in range(len(deltas)):
        out.append({'fn': 'rho', 'tier': tier, 'seed': seed, 'j': j})
        out.append({'fn': 'eps', 'tier': tier, 'seed': seed, 'j': j})
    for k in range(9):
        out.append({'fn': 'trace', 'tier': tier, 'seed': seed, 'k': k})
    for k in range(4 if tier == 'quick' else 1):
        out.append({'fn': 'history', 'tier': tier, 'seed': seed, 'k': k})
    for f in ('cdp_rho', 'cdp_eps', 'cdp_delta'):
        for nm in SPELL:
            out.append({'fn': 'types', 'tier': tier, 'seed': seed, 'target': f, 'spelled': nm})
    return out


SLACK = 1e-9


def check_delta_rows(acc, job, override=None):
    m = cdp()
    rhos, epss, _ = override or grids(job['tier'], job['seed'])
    for i in job['rows']:
        prev = None
        for e_i, eps in enumerate(epss):
            rho = rhos[i]
            d = m.cdp_delta(rho, eps)
            case = {'fn': 'cdp_delta', 'rho': rho, 'eps': eps}
            acc.case(case)
            ref = O.delta_ref(rho, eps)
            g = O.gaussian_delta(rho, eps)
            if not (0.0 <= d <= 1.0):
                acc.violate(case, {'kind': 'range', 'fn': 'cdp_delta'}, 'cdp_delta(%g,%g)=%r outside [0,1]' % (rho, eps, d))
            if d < g * (1 - 1e-9) - 1e-300:
                acc.violate(case, {'kind': 'unsound-vs-gaussian', 'fn': 'cdp_delta'},
                            'cdp_delta(%g,%g)=%.6g is below the exact delta %.6g of the Gaussian mechanism with that rho' % (rho, eps, d, g))
            if ref <= 0.5:
                if abs(d - ref) > 1e-6 * ref + 1e-300:
                    acc.violate(case, {'kind': 'not-tight', 'fn': 'cdp_delta'},
                                'cdp_delta(%g,%g)=%.9g but the optimum of the Renyi-order bound is %.9g' % (rho, eps, d, ref))
            else:
                hi = min(1.0, O.renyi_delta(rho, eps, 1.01))
                if d < ref * (1 - 1e-6) or d > max(hi, ref) * (1 + 1e-6):
                    acc.violate(case, {'kind': 'not-tight', 'fn': 'cdp_delta'},
                                'cdp_delta(%g,%g)=%.9g outside [optimum %.9g, value at alpha=1.01 %.9g]' % (rho, eps, d, ref, hi))
            acc.maximum('delta_rel_dev_from_optimum', abs(d - ref) / ref if 0 < ref <= 0.5 else 0.0, case)
            # monotone: non-increasing in eps
            if prev is not None and d > prev * (1 + SLACK) + 1e-300:
                acc.violate(dict(case, mono=['cdp_delta', [rho, epss[e_i - 1]], [rho, eps], 'dec']), {'kind': 'monotone-eps', 'fn': 'cdp_delta'}, 'cdp_delta(%g, .) increases from %.9g to %.9g between eps %g and %g' % (rho, prev, d, epss[e_i - 1], eps))
            prev = d
            # monotone: non-decreasing in rho (compare with next rho row)
            if i + 1 < len(rhos):
                d2 = m.cdp_delta(rhos[i + 1], eps)
                if d2 < d * (1 - SLACK) - 1e-300:
                    acc.violate(dict(case, mono=['cdp_delta', [rho, eps], [rhos[i + 1], eps], 'inc']), {'kind': 'monotone-rho', 'fn': 'cdp_delta'}, 'cdp_delta(., %g) decreases from %.9g to %.9g between rho %g and %g' % (eps, d, d2, rho, rhos[i + 1]))
            acc.outcome('delta:' + ('tight' if ref <= 0.5 else 'floor'))
    acc.sample({'fn': 'cdp_delta', 'rho': rhos[job['rows'][0]], 'eps': epss[len(epss) // 2]})


def check_rho_col(acc, job, override=None):
    m = cdp()
    rhos, epss, deltas = override or grids(job['tier'], job['seed'])
    j = job['j']
    delta = deltas[j]
    prev = None
    for i, eps in enumerate(epss):
        r = m.cdp_rho(eps, delta)
        case = {'fn': 'cdp_rho', 'eps': eps, 'delta': delta}
        acc.case(case)
        d = m.cdp_delta(r, eps)
        if d > delta * (1 + 1e-12):
            acc.violate(case, {'kind': 'unsound', 'fn': 'cdp_rho'}, 'cdp_rho(%g,%g)=%.9g implies delta %.6g > target' % (eps, delta, r, d))
        dref = O.delta_ref(r, eps)
        if dref > delta * (1 + 1e-6):
            acc.violate(case, {'kind': 'unsound-ref', 'fn': 'cdp_rho'}, 'cdp_rho(%g,%g)=%.9g: independent bound gives delta %.6g > target %.6g' % (eps, delta, r, dref, delta))
        # tight: slightly larger rho must break the target (otherwise budget is wasted)
        if r < eps + 1 - 1e-9 and O.delta_ref(r * (1 + 1e-5) + 1e-300, eps) <= delta * (1 - 1e-6) and dref <= 0.5:
            acc.violate(case, {'kind': 'not-tight', 'fn': 'cdp_rho'}, 'cdp_rho(%g,%g)=%.9g is not the largest sound budget' % (eps, delta, r))
        if prev is not None and r < prev * (1 - SLACK):
            acc.violate(dict(case, mono=['cdp_rho', [epss[i - 1], delta], [eps, delta], 'inc']), {'kind': 'monotone-eps', 'fn': 'cdp_rho'}, 'cdp_rho(., %g) decreases from %.9g to %.9g between eps %g and %g' % (delta, prev, r, epss[i - 1], eps))
        prev = r
        if j + 1 < len(deltas):
            r2 = m.cdp_rho(eps, deltas[j + 1])
            if r2 < r * (1 - SLACK):
                acc.violate(dict(case, mono=['cdp_rho', [eps, delta], [eps, deltas[j + 1]], 'inc']), {'kind': 'monotone-delta', 'fn': 'cdp_rho'}, 'cdp_rho(%g, .) decreases from %.9g to %.9g between delta %g and %g' % (eps, r, r2, delta, deltas[j + 1]))
        # inverse
        if r > 0:
            e2 = m.cdp_eps(r, delta)
            if abs(e2 - eps) > 1e-6 * eps:
                acc.violate(case, {'kind': 'inverse', 'fn': 'cdp_eps(cdp_rho)'}, 'cdp_eps(cdp_rho(%g,%g),%g)=%.9g' % (eps, delta, delta, e2))
            acc.maximum('inverse_rel_err', abs(e2 - eps) / eps, case)
        acc.outcome('rho')
    acc.sample({'fn': 'cdp_rho', 'eps': epss[0], 'delta': delta})


def check_eps_col(acc, job, override=None):
    m = cdp()
    rhos, epss, deltas = override or grids(job['tier'], job['seed'])
    j = job['j']
    delta = deltas[j]
    prev = None
    for i, rho in enumerate(rhos):
        e = m.cdp_eps(rho, delta)
        case = {'fn': 'cdp_eps', 'rho': rho, 'delta': delta}
        acc.case(case)
        if m.cdp_delta(rho, e) > delta * (1 + 1e-12):
            acc.violate(case, {'kind': 'unsound', 'fn': 'cdp_eps'}, 'cdp_eps(%g,%g)=%.9g implies delta %.6g > target' % (rho, delta, e, m.cdp_delta(rho, e)))
        dref = O.delta_ref(rho, e)
        if dref > delta * (1 + 1e-6):
            acc.violate(case, {'kind': 'unsound-ref', 'fn': 'cdp_eps'}, 'cdp_eps(%g,%g)=%.9g: independent bound gives delta %.6g > target' % (rho, delta, e, dref))
        active = O.delta_ref(rho, 0.0) > delta * (1 + 1e-6)
        if active and e > 1e-12 and O.delta_ref(rho, e * (1 - 1e-5), ) <= delta * (1 - 1e-6):
            acc.violate(case, {'kind': 'not-tight', 'fn': 'cdp_eps'}, 'cdp_eps(%g,%g)=%.9g is not the smallest sound epsilon' % (rho, delta, e))
        if prev is not None and e < prev * (1 - SLACK) - 1e-300:
            acc.violate(dict(case, mono=['cdp_eps', [rhos[i - 1], delta], [rho, delta], 'inc']), {'kind': 'monotone-rho', 'fn': 'cdp_eps'}, 'cdp_eps(., %g) decreases from %.9g to %.9g between rho %g and %g' % (delta, prev, e, rhos[i - 1], rho))
        prev = e
        if j + 1 < len(deltas):
            e2 = m.cdp_eps(rho, deltas[j + 1])
            if e2 > e * (1 + SLACK) + 1e-300:
                acc.violate(dict(case, mono=['cdp_eps', [rho, delta], [rho, deltas[j + 1]], 'dec']), {'kind': 'monotone-delta', 'fn': 'cdp_eps'}, 'cdp_eps(%g, .) increases from %.9g to %.9g between delta %g and %g' % (rho, e, e2, delta, deltas[j + 1]))
        if active and e > 1e-9 and e < 1e3:
            r2 = m.cdp_rho(e, delta) if e <= 1e2 else None
            if r2 is not None and abs(r2 - rho) > 1e-6 * rho:
                acc.violate(case, {'kind': 'inverse', 'fn': 'cdp_rho(cdp_eps)'}, 'cdp_rho(cdp_eps(%g,%g),%g)=%.9g' % (rho, delta, delta, r2))
        acc.outcome('eps:' + ('active' if active else 'free'))
    acc.sample({'fn': 'cdp_eps', 'rho': rhos[0], 'delta': delta})


# ---------------------------------------------------------------------------
# trace monitor
# ---------------------------------------------------------------------------
def loop_lines(m):
    """line numbers of the first statement of each bisection loop body, found in the module's source text
    (independent of decorators wrapped around the functions)"""
    src = open(m.__file__).read().splitlines()
    out = {}
    for fn, marker in (('cdp_delta', 'alpha=(amin+amax)/2'), ('cdp_eps', 'eps=(epsmin+epsmax)/2'), ('cdp_rho', 'rho=(rhomin+rhomax)/2')):
        defs = [i for i, l in enumerate(src) if l.replace(' ', '').startswith('def%s(' % fn)]
        if len(defs) != 1:
            raise RuntimeError('trace monitor: %d definitions of %s' % (len(defs), fn))
        hits = []
        for i in range(defs[0] + 1, len(src)):
            if src[i].startswith('def ') or src[i].startswith('@'):
                break
            if src[i].strip().replace(' ', '') == marker:
                hits.append(i + 1)
        # a re-organised search loop is not a violation: the monitor is then not attached to this function
        # (outcome 'trace-unavailable') and the input/output clauses of the other jobs decide alone
        out[fn] = hits[0] if len(hits) == 1 else None
    return out


def monitored(m, fn, args, acc, case):
    lines = loop_lines(m)
    target_line = lines[fn]
    if target_line is None:
        acc.outcome('trace-unavailable:' + fn)
        return getattr(m, fn)(*args)
    mfile = os.path.realpath(m.__file__)
    st = {'n': 0, 'prev': None, 'init': None, 'bad': []}

    def inv(loc):
        if fn == 'cdp_eps':
            lo, hi = loc['epsmin'], loc['epsmax']
            rho, delta = loc['rho'], loc['delta']
            v_hi = m.cdp_delta(rho, hi) <= delta
            v_lo = m.cdp_delta(rho, lo) >= delta
            return lo, hi, v_hi, v_lo
        if fn == 'cdp_rho':
            lo, hi = loc['rhomin'], loc['rhomax']
            eps, delta = loc['eps'], loc['delta']
            v_lo = m.cdp_delta(lo, eps) <= delta          # sound side
            v_hi = m.cdp_delta(hi, eps) > delta
            return lo, hi, v_lo, v_hi
        lo, hi = loc['amin'], loc['amax']
        rho, eps = loc['rho'], loc['eps']
        der = lambda a: (2 * a - 1) * rho - eps + math.log1p(-1.0 / a)
        return lo, hi, der(hi) >= 0, der(lo) < 0

    def local(frame, event, arg):
        if event == 'line' and frame.f_lineno == target_line:
            lo, hi, sound, other = inv(frame.f_locals)
            st['n'] += 1
            if st['init'] is None:
                st['init'] = (sound, other)
            if st['init'][0] and not sound:
                st['bad'].append('iteration %d: invariant of the sound bound broken (lo=%r hi=%r)' % (st['n'], lo, hi))
            if st['init'][1] and not other:
                st['bad'].append('iteration %d: invariant of the other bound broken (lo=%r hi=%r)' % (st['n'], lo, hi))
            if st['prev'] is not None and not (lo >= st['prev'][0] and hi <= st['prev'][1] and lo <= hi):
                st['bad'].append('iteration %d: interval does not shrink: [%r,%r] after [%r,%r]' % (st['n'], lo, hi, st['prev'][0], st['prev'][1]))
            st['prev'] = (lo, hi)
        return local

    depth = {'n': 0}

    def tracer(frame, event, arg):
        # the outermost activation of the function body itself (whatever wrappers are around it)
        if event == 'call' and frame.f_code.co_name == fn and os.path.realpath(frame.f_code.co_filename) == mfile and depth['n'] == 0:
            depth['n'] += 1
            return local
        return None
    old = sys.gettrace()
    sys.settrace(tracer)
    try:
        out = getattr(m, fn)(*args)
    finally:
        sys.settrace(old)
    acc.states += st['n']
    acc.transitions += max(0, st['n'] - 1)
    if fn != 'cdp_delta' and st['init'] is not None and not st['init'][0]:
        st['bad'].append('the sound-side invariant does not hold initially')
    if st['n'] < 100:
        st['bad'].append('only %d loop states observed' % st['n'])
    if st['bad']:
        acc.violate(case, {'kind': 'loop-invariant', 'fn': fn}, '%s%r: %s' % (fn, tuple(args), '; '.join(st['bad'][:3])))
    return out


def check_trace(acc, job):
    m = cdp()
    k = job['k']
    rs = [1e-4, 0.05, 3.0]
    es = [0.01, 1.0, 20.0]
    ds = [1e-12, 1e-6, 0.1]
    a, b = k // 3, k % 3
    for fn, args in (('cdp_delta', (rs[a], es[b])), ('cdp_eps', (rs[a], ds[b])), ('cdp_rho', (es[a], ds[b]))):
        case = {'fn': 'trace:' + fn, 'args': list(args)}
        acc.case(case)
        acc.traces += 1
        monitored(m, fn, args, acc, case)
        acc.outcome('trace:' + fn)
    acc.sample({'trace': 'cdp_rho', 'args': [es[a], ds[b]], 'loop_states': 1000})


SPELL = {'int': int, 'np.int64': np.int64, 'np.float32': np.float32, '0-d array': lambda v: np.array(float(v))}


def check_types(acc, job):
    """the conversions are functions of the VALUES of their arguments: the same numbers spelled as Python ints, numpy integers,
    numpy float32/float64 scalars or 0-d arrays give the same result as the Python-float call"""
    m = cdp()
    spell = SPELL
    ints = [1, 3, 10]
    deltas = [1e-9, 0.1]
    for fn, firsts, seconds in (('cdp_rho', ints, deltas), ('cdp_eps', ints, deltas), ('cdp_delta', ints, [2, 7, 0.5])):
        if job.get('target', fn) != fn:
            continue
        for a in firsts:
            for b in seconds:
                ref = getattr(m, fn)(float(a), float(b))
                for nm, conv in spell.items():
                    if job.get('spelled', nm) != nm:
                        continue
                    for which in (0, 1):
                        if which == 1 and (float(b) != int(b)) and 'int' in nm:
                            continue
                        args = [float(a), float(b)]
                        args[which] = conv(args[which]) if 'int' not in nm else conv(int(args[which]))
                        case = {'fn': 'types:' + fn, 'args': [float(a), float(b)], 'spelled': nm, 'position': which}
                        acc.case(case)
                        got = getattr(m, fn)(*args)
                        tol = 1e-5 if nm == 'np.float32' else 1e-9     # a float32 argument makes numpy carry the whole search in single precision
                        if not (abs(float(got) - float(ref)) <= tol * abs(float(ref)) + 1e-300):
                            acc.violate(case, {'kind': 'argument-type', 'fn': fn, 'spelled': nm},
                                        '%s(%r, %r) with argument %d spelled as %s gives %r, the float call gives %r' % (fn, a, b, which, nm, got, ref))
                        acc.outcome('types')
    acc.sample(case)


def fresh_module():
    import matplotlib
    matplotlib.use('Agg')
    path = os.path.join(REPO, 'mechanisms', 'cdp2adp.py')
    spec = importlib.util.spec_from_file_location('verif_cdp2adp_fresh', path)
    m = importlib.util.module_from_spec(spec)
    spec.loader.exec_module(m)
    return m


def check_history(acc, job):
    """E3: every ordered pair of calls from {cdp_delta, cdp_eps, cdp_rho} with numerically EQUAL arguments on one fresh
    module instance; the second answer must equal what a fresh instance returns for that call alone"""
    pts = [(1.0, 1e-9), (0.5, 1e-5), (0.01, 0.1), (3.0, 1e-6)][job['k'] % 4:][:1] if job['tier'] == 'quick' else [(1.0, 1e-9), (0.5, 1e-5), (0.01, 0.1), (3.0, 1e-6)]
    fns = ['cdp_delta', 'cdp_eps', 'cdp_rho']
    for x, d in pts:
        alone = {f: getattr(fresh_module(), f)(x, d) for f in fns}
        for f1 in fns:
            for f2 in fns:
                m = fresh_module()
                getattr(m, f1)(x, d)
                got = getattr(m, f2)(x, d)
                case = {'fn': 'history', 'calls': [f1, f2], 'args': [x, d]}
                acc.case(case)
                acc.states += 2
                acc.transitions += 2
                acc.traces += 1
                if not (got == alone[f2] or abs(got - alone[f2]) <= 1e-12 * abs(alone[f2])):
                    acc.violate(case, {'kind': 'history-dependence', 'fn': f2}, '%s(%g,%g) returns %r after a call of %s with the same arguments, %r on its own' % (f2, x, d, got, f1, alone[f2]))
        acc.outcome('history')
    # calls on very different scales after one another (search state must not carry over)
    menu = [('cdp_delta', (0.5, 3.0)), ('cdp_delta', (0.005, 0.5)), ('cdp_delta', (1e-5, 0.01)), ('cdp_eps', (50.0, 0.1)), ('cdp_eps', (1e-5, 1e-6)),
            ('cdp_rho', (10.0, 1e-3)), ('cdp_rho', (0.01, 1e-9))]
    k0 = job['k'] if job['tier'] == 'quick' else None
    alone = {}
    for i, (f1, a1) in enumerate(menu):
        for j, (f2, a2) in enumerate(menu):
            if i == j or (k0 is not None and (i + j) % 4 != k0 % 4):
                continue
            if (f2, a2) not in alone:
                alone[(f2, a2)] = getattr(fresh_module(), f2)(*a2)
            m = fresh_module()
            getattr(m, f1)(*a1)
            got = getattr(m, f2)(*a2)
            case = {'fn': 'history', 'calls': [f1, f2], 'args': list(a1), 'args2': list(a2)}
            acc.case(case)
            acc.states += 2
            acc.transitions += 2
            acc.traces += 1
            ref = alone[(f2, a2)]
            if not (got == ref or abs(got - ref) <= 1e-9 * abs(ref)):
                acc.violate(case, {'kind': 'history-dependence', 'fn': f2}, '%s%r returns %r after %s%r, %r on its own' % (f2, a2, got, f1, a1, ref))
    acc.sample({'history': ['cdp_eps(1.0,1e-9)', 'cdp_rho(1.0,1e-9)']})


def run_job(job):
    acc = Acc()
    if job['fn'] == 'history':
        check_history(acc, job)
        return acc
    {'delta': check_delta_rows, 'rho': check_rho_col, 'eps': check_eps_col, 'trace': check_trace, 'types': check_types}[job['fn']](acc, job)
    if job['fn'] != 'trace':
        acc.states += acc.evals
        acc.transitions += acc.evals
    return acc


def replay(case):
    m = cdp()
    acc = Acc()
    fn = case['fn']
    if fn == 'history':
        f1, f2 = case['calls']
        a1 = tuple(case['args'])
        a2 = tuple(case.get('args2', case['args']))
        x, d = a1
        alone = getattr(fresh_module(), f2)(*a2)
        m2 = fresh_module()
        getattr(m2, f1)(*a1)
        got = getattr(m2, f2)(*a2)
        print('%s alone: %r; after %s: %r' % (f2, alone, f1, got))
        if not (got == alone or abs(got - alone) <= 1e-9 * abs(alone)):
            acc.violate(case, {'kind': 'history-dependence'}, '%s differs after %s' % (f2, f1))
        return acc.violations
    if 'mono' in case:
        f, a1, a2, direction = case['mono']
        v1, v2 = getattr(m, f)(*a1), getattr(m, f)(*a2)
        print('%s%r=%r  %s%r=%r expected %s' % (f, tuple(a1), v1, f, tuple(a2), v2, 'non-decreasing' if direction == 'inc' else 'non-increasing'))
        bad = v2 < v1 * (1 - SLACK) - 1e-300 if direction == 'inc' else v2 > v1 * (1 + SLACK) + 1e-300
        if bad:
            acc.violate(case, {'kind': 'monotone'}, '%s not monotone between %r and %r: %r -> %r' % (f, a1, a2, v1, v2))
        return acc.violations
    if fn.startswith('trace:'):
        monitored(m, fn[6:], tuple(case['args']), acc, case)
    elif fn.startswith('types:'):
        check_types(acc, {'target': fn[6:], 'spelled': case['spelled']})
        for v in acc.violations[:5]:
            print(v['msg'])
    else:
        # re-run exactly the per-point clauses of the sweep on a one-point grid
        if fn == 'cdp_delta':
            check_delta_rows(acc, {'rows': [0]}, override=([case['rho']], [case['eps']], []))
        elif fn == 'cdp_rho':
            check_rho_col(acc, {'j': 0}, override=([], [case['eps']], [case['delta']]))
        else:
            check_eps_col(acc, {'j': 0}, override=([case['rho']], [], [case['delta']]))
        for v in acc.violations:
            print(v['msg'])
    return acc.violations
