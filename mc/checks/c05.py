"""C05 - mechanisms never spend more privacy than the (epsilon, delta) budget.

E2 (lock-step): every base execution within the deviation bound is replayed on every
neighbouring dataset with identical released values and selections; each release is
charged by the actual change of its operand, each selection by the actual change of its
probability vector; the sum is compared with the budget."""
import numpy as np

from ..core import Acc
from .. import ledger as L
from .. import oracle as O
from .. import mechspecs as MS

PROPERTY = 'C05'
LEVEL = 'model_checking'
DESIGN_REF = 'DESIGN.md section 5 / C05'
TECHNIQUE = ('stateless exploration of the real mechanisms under an owned random environment (iterative deviation bounding over noise answers and '
             'selections), each execution replayed in lock step on every neighbouring dataset; exact per-release privacy ledger')
RULE = ('case = (mechanism, parameters, base dataset, decision list, neighbour); neighbours: ALL add-one (every cell) / remove-one (every distinct record) '
        'or, under bounded adjacency, ALL replace-one datasets; decisions: default execution + every execution with <= d deviations (noise answer menu, '
        'every other candidate of each selection); plus the AIM budget ledger with a stub estimator over ALL (selection, anneal-bit) paths. '
        'states = decision points reached, transitions = environment answers; non-trivial = the neighbour changes at least one released statistic; '
        'distinct = digest of (case, neighbour).')
LEVEL_TEXT = ('All executions of each mechanism within the deviation bound, on each base dataset and parameter point of the menu, are paired with all '
              'their neighbours; the accumulated zCDP (or pure epsilon) cost computed from the observed operands and selection probabilities must '
              'stay within the budget implied by (epsilon, delta) by an independent conversion. This charges actual costs on enumerated pairs; it '
              'detects any mis-scaled sensitivity or budget split that is attained on such a pair, it is not a proof of differential privacy.')
LEVEL_NOTE = ('Datasets over a 8/12-cell domain; estimator capped at 30 iterations and memoised inside mechanism runs (estimation is post-processing); '
              'autodp/hdmm stubbed; bounded-range => zCDP lemma and the zCDP->(eps,delta) formula are trusted mathematics.')
ASSUMPTIONS = ['executions in which the mechanism raises before returning (numpy argument validation: NaN probabilities) produce no output and are counted, not charged',
               'cdp_rho memoised per process (pure function)']


def hashseeds(tier):
    return [0]


def bounds(tier):
    return MS.bounds(tier)


def jobs(tier, seed):
    return MS.jobs(tier, seed)


def check_exec(acc, job, ctrl, base, results, spec, unit):
    case0 = {'spec': spec, 'ds': job['ds'], 'sizes': job['sizes'], 'prefix': list(ctrl.choices) if ctrl.deviations else [], 'seed': job['seed'],
             'alts': job['alts']}
    acc.traces += 1 + len(results)
    acc.states += len(ctrl.points) + 1
    acc.transitions += len(base.events) * (1 + len(results))
    if base.raised is not None:
        acc.case(dict(case0, nb=None), nontrivial=False)
        acc.outcome('%s:raised-no-output' % spec['mech'])
        return
    budget = L.budget_rho(spec['eps'], spec['delta']) if unit == 'rho' else spec['eps']
    for tag, what, r in results:
        case = dict(case0, nb=[tag, what])
        if r['diverged']:
            acc.case(case, nontrivial=True)
            acc.outcome('%s:diverged' % spec['mech'])
            continue
        rho, eps, det = L.pair_cost(base.events, r['events'])
        spent = rho if unit == 'rho' else eps
        acc.case(case, nontrivial=spent > 0)
        acc.maximum('spend_over_budget:%s%s' % (spec['mech'], ':bounded' if spec.get('bounded') else ''), spent / budget, case)
        if unit == 'rho':
            bad = (not np.isfinite(spent)) or O.delta_ref(spent, spec['eps']) > spec['delta'] * (1 + 1e-6)
        else:
            bad = (not np.isfinite(spent)) or spent > budget * (1 + 1e-9)
        acc.outcome('%s:%s' % (spec['mech'], 'ok' if not bad else 'OVERSPEND'))
        if bad:
            top = sorted(det, key=lambda d: -d[2] if isinstance(d[2], float) else 0)[:4]
            acc.violate(case, {'kind': 'overspend', 'mech': spec['mech'], 'bounded': bool(spec.get('bounded')), 'unit': unit},
                        '%s %s on dataset %s vs neighbour %s %r: accumulated %s cost %.6g exceeds the budget %.6g (x%.4f); largest charges (event, kind, cost): %r' % (
                            spec['mech'], {k: v for k, v in spec.items() if k != 'mech'}, job['ds'], tag, what, unit, spent, budget, spent / budget, top))


def run_job(job):
    acc = Acc()
    if job.get('aimledger'):
        from . import c05_aim
        c05_aim.run(acc, job)
        return acc
    spec = job['spec']
    fn, bounded, unit = L.mechanism_call(spec)
    n = 0
    for ctrl, base, results in L.explore_spec(spec, job['ds'], job['sizes'], job['bound'], job['seed'], job['alts'], cap=job.get('cap')):
        check_exec(acc, job, ctrl, base, results, spec, unit)
        n += 1
    if job.get('cap') and n >= job['cap']:
        acc.cap('exploration of %s capped at %d base executions' % (spec['mech'], job['cap']))
    acc.sample({'spec': spec, 'dataset': L.base_datasets(job['sizes'])[job['ds']][:6], 'deviation_bound': job['bound'], 'neighbours': 'all'})
    return acc


def replay(case):
    acc = Acc()
    if case.get('aimledger'):
        from . import c05_aim
        c05_aim.run(acc, case, only=case)
        return acc.violations
    spec = case['spec']
    fn, bounded, unit = L.mechanism_call(spec)
    job = {'ds': case['ds'], 'sizes': case['sizes'], 'seed': case['seed'], 'alts': case['alts']}
    for ctrl, base, results in L.explore_spec(spec, case['ds'], case['sizes'], 0, case['seed'], case['alts'], only_prefix=case['prefix']):
        if case.get('nb') is not None:
            results = [r for r in results if L_jsonable([r[0], r[1]]) == case['nb']]
        check_exec(acc, job, ctrl, base, results, spec, unit)
    for v in acc.violations:
        print(v['msg'])
    return acc.violations


def L_jsonable(x):
    import json
    return json.loads(json.dumps(x))
