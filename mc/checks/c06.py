"""C06 - private data reaches mechanism output only through the DP primitives.

Same lock-step engine as C05: every base execution within the deviation bound is replayed
on every neighbouring dataset with identical released values and selections; the two
executions must then perform the same event sequence and return identical synthetic data
conforming to the input domain."""
import numpy as np

from ..core import Acc
from .. import ledger as L
from .. import mechspecs as MS

PROPERTY = 'C06'
LEVEL = 'model_checking'
DESIGN_REF = 'DESIGN.md section 5 / C06'
TECHNIQUE = ('stateless exploration of the real mechanisms under an owned random environment with lock-step replay on all neighbouring datasets; '
             'relational (two-execution) oracle on the event sequence and the returned data')
RULE = ('case = (mechanism, parameters, base dataset, decision list, second dataset); same enumeration as C05 (all neighbours; default execution + all executions '
        'with <= d deviations) plus 3-4 datasets far from the base one (one record, uniform x5, all records in one cell, every record shifted): the relation is '
        'transitive along a chain of neighbours, so it must hold for them as well, and data-dependent branches flip far more readily. states = decision points reached, transitions = environment events compared; non-trivial = every pair (the neighbour '
        'differs from the base dataset by construction); distinct = digest of (case, neighbour).')
LEVEL_TEXT = ('For every explored execution and every neighbour, the neighbour run is forced to observe the same noisy releases and the same selections; '
              'any difference in the kind, length, scale or candidate count of its random draws, in the arguments of its data-independent draws, or in '
              'the returned synthetic data is a flow of private data around the DP primitives. The returned data must live in the input domain.')
LEVEL_NOTE = ('Side channels are detected on the enumerated pairs only (8/12-cell domain, 2-3 base datasets); the estimator is capped at 30 iterations and '
              'memoised (deterministic post-processing, see C13).')
ASSUMPTIONS = ['a draw whose arguments are identical on both datasets carries no information', 'autodp / hdmm stubbed']


def hashseeds(tier):
    return [0]


def bounds(tier):
    return MS.bounds(tier)


def jobs(tier, seed):
    return [j for j in MS.jobs(tier, seed) if not j.get('aimledger')]


def same_draw(a, b):
    for k in ('what', 'a', 'size', 'replace'):
        if a.get(k) != b.get(k):
            return False
    pa, pb = a.get('p'), b.get('p')
    if (pa is None) != (pb is None):
        return False
    return pa is None or (pa.shape == pb.shape and np.array_equal(pa, pb))


def frames_equal(a, b):
    x, y = a.df.reset_index(drop=True), b.df.reset_index(drop=True)
    return list(x.columns) == list(y.columns) and x.shape == y.shape and np.array_equal(x.values, y.values)


def conforms(out, sizes):
    from mbi import Domain, Dataset
    if not isinstance(out, Dataset):
        return 'returned %r, not a Dataset' % type(out)
    dom = Domain(L.ATTRS[:len(sizes)], sizes)
    if not (tuple(out.domain.attrs) == tuple(dom.attrs) and tuple(out.domain.shape) == tuple(dom.shape)):
        return 'returned domain %r differs from the input domain %r' % (out.domain, dom)
    if list(out.df.columns) != list(dom.attrs):
        return 'returned frame has columns %r' % (list(out.df.columns),)
    v = out.df.values
    if v.size:
        if not np.all(np.equal(np.mod(v.astype(float), 1), 0)):
            return 'returned frame contains non-integer values'
        if v.min() < 0 or np.any(v.max(axis=0) >= np.array(sizes)):
            return 'returned frame contains a value outside its attribute range: column maxima %r, sizes %r' % (v.max(axis=0).tolist(), sizes)
    return None


def check_exec(acc, job, ctrl, base, results, spec):
    case0 = {'spec': spec, 'ds': job['ds'], 'sizes': job['sizes'], 'prefix': list(ctrl.choices) if ctrl.deviations else [], 'seed': job['seed'],
             'alts': job['alts']}
    acc.traces += 1 + len(results)
    acc.states += len(ctrl.points) + 1
    if base.raised is not None:
        acc.case(dict(case0, nb=None), nontrivial=False)
        acc.outcome('%s:raised-no-output' % spec['mech'])
        return
    if getattr(base, 'input_mutation', None):
        acc.violate(dict(case0, nb=None), {'kind': 'input-mutated', 'mech': spec['mech']},
                    '%s %s on %s: %s (a later run on the same objects would see it)' % (spec['mech'], spec, job['ds'], base.input_mutation))
    err = conforms(base.out, job['sizes'])
    if err:
        acc.violate(dict(case0, nb=None), {'kind': 'domain', 'mech': spec['mech']}, '%s %s on %s: %s' % (spec['mech'], spec, job['ds'], err))
    for tag, what, r in results:
        case = dict(case0, nb=[tag, what])
        acc.case(case, nontrivial=True)
        acc.transitions += len(base.events)
        why = None
        kind = None
        if r['diverged']:
            kind, why = 'control-flow', r['diverged']
        else:
            for k, (a, b) in enumerate(zip(base.events, r['events'])):
                if a['kind'] == 'draw' and not same_draw(a, b):
                    kind, why = 'draw-arguments', 'event %d: data-independent draw %s receives different arguments on the neighbour (%r vs %r)' % (
                        k, a['what'], {x: b.get(x) for x in ('a', 'size')}, {x: a.get(x) for x in ('a', 'size')})
                    break
                if a['kind'] == 'select' and a['n'] != b['n']:
                    kind, why = 'control-flow', 'event %d: %d candidates on the neighbour, %d on the base dataset' % (k, b['n'], a['n'])
                    break
            if why is None and not frames_equal(base.out, r['out']):
                kind, why = 'output-differs', 'the two executions observed identical releases and selections but returned different synthetic data'
            if why is None:
                e2 = conforms(r['out'], job['sizes'])
                if e2:
                    kind, why = 'domain', e2
        acc.outcome('%s:%s' % (spec['mech'], 'ok' if why is None else kind))
        if why is not None:
            acc.violate(case, {'kind': kind, 'mech': spec['mech']}, '%s %s on dataset %s vs neighbour %s %r: %s' % (
                spec['mech'], {k: v for k, v in spec.items() if k != 'mech'}, job['ds'], tag, what, why))


def run_job(job):
    acc = Acc()
    spec = job['spec']
    n = 0
    for ctrl, base, results in L.explore_spec(spec, job['ds'], job['sizes'], job['bound'], job['seed'], job['alts'], cap=job.get('cap'), far=True):
        check_exec(acc, job, ctrl, base, results, spec)
        n += 1
    if job.get('cap') and n >= job['cap']:
        acc.cap('exploration of %s capped at %d base executions' % (spec['mech'], job['cap']))
    acc.sample({'spec': spec, 'dataset': L.base_datasets(job['sizes'])[job['ds']][:6], 'deviation_bound': job['bound'], 'neighbours': 'all'})
    return acc


def replay(case):
    import json
    acc = Acc()
    spec = case['spec']
    job = {'ds': case['ds'], 'sizes': case['sizes'], 'seed': case['seed'], 'alts': case['alts']}
    for ctrl, base, results in L.explore_spec(spec, case['ds'], case['sizes'], 0, case['seed'], case['alts'], only_prefix=case['prefix'], far=True):
        if case.get('nb') is not None:
            results = [r for r in results if json.loads(json.dumps([r[0], r[1]])) == case['nb']]
        check_exec(acc, job, ctrl, base, results, spec)
    for v in acc.violations:
        print(v['msg'])
    return acc.violations
