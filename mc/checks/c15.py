"""C15 - datasets vectorise to their contingency table; projection commutes; domain laws.

E1: all multisets of <=3 records over every cell of three small domains x weight
vectors x column presentations x every ordered projection tuple; domain algebra
over every ordered tuple pair.  Oracle: loop-and-count table."""
import itertools

import numpy as np

from ..core import Acc
from .. import oracle as O

PROPERTY = 'C15'
LEVEL = 'exploration'
DESIGN_REF = 'DESIGN.md section 5 / C15'
TECHNIQUE = 'exhaustive enumeration of small record multisets x weights x projections on the real Dataset/Domain; loop-and-count reference table'
RULE = ('case = (domain, record multiset, weight kind, frame presentation); record multisets: ALL multisets of <= 3 records over the '
        'cells plus empty / boundary / one-cell-x-50; per case every ordered non-empty projection tuple (and str form) is checked; '
        'domain algebra: every ordered pair of ordered attribute tuples. non-trivial = dataset has >= 2 records or the case is a '
        'domain-law pair with overlapping tuples; distinct = digest of the case.')
LEVEL_TEXT = ('Complete enumeration of all small datasets (every multiset of up to three records over every cell) under every weight '
              'kind, frame layout and ordered projection, each compared cell by cell with a table counted by a plain loop; complete '
              'enumeration of ordered tuple pairs for the domain laws.')
LEVEL_NOTE = 'Domains bounded to 6-8 cells and attribute sizes <= 3; the empty projection () is outside the alphabet (numpy.histogramdd rejects zero-dimensional samples).'
ASSUMPTIONS = ['pandas DataFrame construction is trusted', 'weights are compared at 1e-12 relative']

DOMAINS = {'BA': (['B', 'A'], [2, 3]), 'ABC1': (['A', 'B', 'C'], [1, 2, 3]), 'CAB': (['C', 'A', 'B'], [2, 2, 2])}
WEIGHTS = ['none', 'ones', 'mixed', 'zero']
FRAMES = ['plain', 'extra-column', 'shuffled-columns']
# laws only: integer attribute names whose text order differs from their numeric order
LAW_DOMAINS = {'INTS': ([10, 2, 33, 4], [2, 3, 2, 2])}


def bounds(tier):
    return {'domains': DOMAINS, 'max_records_exhaustive': 3, 'weights': WEIGHTS, 'frames': FRAMES}


def record_sets(shape, tier):
    cells = list(itertools.product(*[range(s) for s in shape]))
    out = []
    for r in range(0, 4):
        out.extend([list(c) for c in itertools.combinations_with_replacement(cells, r)])
    out.append([cells[0], cells[-1], cells[-1], cells[0], cells[-1]])
    out.append([cells[len(cells) // 2]] * 50)
    if tier == 'thorough':
        out.append([c for c in cells for _ in range(2)])
        out.extend([list(c) for c in itertools.combinations_with_replacement(cells[:4], 4)])
    return out


def jobs(tier, seed):
    out = []
    for dn in DOMAINS:
        n = len(record_sets(DOMAINS[dn][1], tier))
        for i in range(0, n, 10):
            out.append({'dom': dn, 'lo': i, 'hi': min(n, i + 10), 'tier': tier})
        out.append({'dom': dn, 'laws': True, 'tier': tier})
    out += [{'dom': dn, 'laws': True, 'tier': tier} for dn in LAW_DOMAINS]
    return out


def weights_for(kind, n):
    if kind == 'none':
        return None
    if kind == 'ones':
        return np.ones(n)
    if kind == 'zero':
        return np.zeros(n)
    base = [0.5, 2.0, 0.0, 3.25, 1.0]
    return np.array([base[i % 5] for i in range(n)])


def count_table(attrs, shape, recs, w, target):
    tshape = [shape[attrs.index(a)] for a in target]
    T = np.zeros(tshape)
    for i, r in enumerate(recs):
        cell = tuple(r[attrs.index(a)] for a in target)
        T[cell] += 1.0 if w is None else w[i]
    return T


def make_frame(attrs, recs, frame):
    import pandas as pd
    arr = np.array(recs, dtype=int).reshape(len(recs), len(attrs))
    df = pd.DataFrame(arr, columns=attrs)
    if frame == 'extra-column':
        df['ZZ_unused'] = np.arange(len(recs)) % 3 + 7
    elif frame == 'shuffled-columns':
        df = df[list(reversed(attrs))]
    return df


def dataset_case(acc, dn, recs, wkind, frame):
    from mbi import Dataset, Domain
    attrs, shape = DOMAINS[dn]
    dom = Domain(attrs, shape)
    fails = []
    w = weights_for(wkind, len(recs))
    ds = Dataset(make_frame(attrs, recs, frame), dom, None if w is None else w.copy())
    if list(ds.df.columns) != list(attrs):
        fails.append('columns %r are not in domain order %r' % (list(ds.df.columns), attrs))
    if ds.records != len(recs):
        fails.append('records=%r' % ds.records)
    full = count_table(attrs, shape, recs, w, attrs)
    v = ds.datavector()
    if v.shape != (full.size,) or not O.close(v, full.flatten(), 1e-12, 0):
        fails.append('datavector() != contingency table: %r vs %r' % (v.tolist(), full.flatten().tolist()))
    v2 = ds.datavector(flatten=False)
    if v2.shape != full.shape or not O.close(v2, full, 1e-12, 0):
        fails.append('datavector(flatten=False) has shape %r / differs' % (v2.shape,))
    # the caller edits the table it was handed in place; the dataset must still vectorise to its contingency table
    v2 *= 0.0
    v2 += 7.0
    v3 = ds.datavector()
    if v3.shape != (full.size,) or not O.close(v3, full.flatten(), 1e-12, 0):
        fails.append('datavector() after the caller modified an earlier datavector(flatten=False) result: %r vs %r' % (v3.tolist(), full.flatten().tolist()))
    acc.evals += 3
    for r in range(1, len(attrs) + 1):
        for t in itertools.permutations(attrs, r):
            forms = [list(t), tuple(t)] + ([t[0]] if r == 1 else [])
            for form in forms:
                p = ds.project(form)
                ref = count_table(attrs, shape, recs, w, t)
                ref2 = O.marginal(full, attrs, t)  # projection commutes with marginalise+transpose of the full table
                assert np.allclose(ref, ref2), 'oracle self-check'
                if tuple(p.domain.attrs) != tuple(t) or tuple(p.domain.shape) != tuple(ref.shape):
                    fails.append('project(%r): domain %r' % (form, p.domain))
                    continue
                if list(p.df.columns) != list(t):
                    fails.append('project(%r): frame columns %r' % (form, list(p.df.columns)))
                pv = p.datavector(flatten=False)
                if pv.shape != ref.shape or not O.close(pv, ref, 1e-12, 0):
                    fails.append('project(%r).datavector() differs from the marginalised table: %r vs %r' % (form, pv.flatten().tolist(), ref.flatten().tolist()))
                if (w is None) != (p.weights is None) or (w is not None and not np.array_equal(p.weights, w)):
                    fails.append('project(%r) did not carry the weights along' % (form,))
                acc.evals += 1
    for r in range(0, len(attrs)):
        for dropped in itertools.combinations(attrs, r):
            keep = [a for a in attrs if a not in dropped]
            p = ds.drop(list(dropped))
            ref = count_table(attrs, shape, recs, w, keep)
            if tuple(p.domain.attrs) != tuple(keep) or not O.close(p.datavector(flatten=False), ref, 1e-12, 0):
                fails.append('drop(%r) wrong' % (dropped,))
            acc.evals += 1
    # the original object is unchanged by projections
    if not O.close(ds.datavector(), full.flatten(), 1e-12, 0):
        fails.append('dataset changed by projection')
    return fails


def big_domain_laws(acc):
    """product laws must hold as exact integers however large the domain is"""
    from mbi import Domain
    fails = []
    for n, k in [(2, 62), (2, 63), (2, 64), (2, 70), (100, 10), (3, 41), (7, 23)]:
        attrs = ['x%d' % i for i in range(k)]
        dom = Domain(attrs, [n] * k)
        acc.evals += 1
        if dom.size() != n ** k:
            fails.append('size() of %d attributes of size %d is %r, expected %d' % (k, n, dom.size(), n ** k))
        half = attrs[: k // 2]
        if dom.size(half) * dom.size(dom.invert(half)) != n ** k:
            fails.append('size(S)*size(invert(S)) != size() for %d attributes of size %d' % (k, n))
        m = dom.project(half).merge(dom.project(attrs[k // 3:]))
        if m.size() != n ** k:
            fails.append('merge size law fails for %d attributes of size %d: %r' % (k, n, m.size()))
        acc.case({'big-domain': [n, k]})
    return fails


def dtype_cases(acc):
    """record values stored in narrow integer dtypes (pandas category codes are int8): the flat cell index of a 396-cell
    domain does not fit the dtype of the values"""
    import pandas as pd
    from mbi import Dataset, Domain
    attrs, shape = ['p', 'q', 'r'], [11, 12, 3]
    dom = Domain(attrs, shape)
    recs = [(10, 11, 2), (10, 11, 2), (9, 0, 1), (0, 11, 0), (5, 6, 1), (10, 0, 2), (3, 3, 0), (10, 11, 0)]
    w = np.array([0.5, 2.0, 1.0, 3.0, 0.25, 1.5, 2.0, 1.0])
    fails = []
    for dt in ['int64', 'int32', 'int16', 'uint16', 'int8', 'uint8', 'category-codes']:
        for weights in (None, w):
            arr = np.array(recs)
            if dt == 'category-codes':
                df = pd.DataFrame({a: pd.Categorical(arr[:, i], categories=range(shape[i])).codes for i, a in enumerate(attrs)})
            else:
                df = pd.DataFrame(arr.astype(dt), columns=attrs)
            ds = Dataset(df, dom, None if weights is None else weights.copy())
            acc.evals += 1
            acc.case({'dtype': dt, 'weighted': weights is not None})
            for t in [tuple(attrs), ('r', 'p', 'q'), ('q', 'p'), ('p',)]:
                ref = count_table(attrs, shape, recs, weights, t)
                got = ds.project(list(t)).datavector(flatten=False)
                if got.shape != ref.shape or not O.close(got, ref, 1e-12, 0):
                    fails.append('dtype %s%s: project(%r).datavector() differs from the counted table (sum %r vs %r)' % (
                        dt, ' weighted' if weights is not None else '', t, float(np.sum(got)), float(ref.sum())))
                    break
    return fails


def domain_laws(acc, dn):
    from mbi import Domain
    attrs, shape = DOMAINS.get(dn) or LAW_DOMAINS[dn]
    cfg = dict(zip(attrs, shape))
    dom = Domain(attrs, shape)
    fails = []

    def chk(cond, msg):
        acc.evals += 1
        if not cond:
            fails.append(msg)
    chk(dom.attrs == tuple(attrs) and dom.shape == tuple(shape) and len(dom) == len(attrs) and list(dom) == list(attrs), 'basic accessors')
    chk(dom.size() == int(np.prod(shape)), 'size()')
    fd = Domain.fromdict(dict(zip(attrs, shape)))
    chk(fd == dom and fd.attrs == tuple(attrs), 'fromdict')
    chk(not (dom == Domain(list(reversed(attrs)), list(reversed(shape)))) or len(attrs) == 1, '__eq__ must distinguish attribute order')
    tl = [t for r in range(0, len(attrs) + 1) for t in itertools.permutations(attrs, r)]
    for t in tl:
        p = dom.project(list(t))
        chk(p.attrs == tuple(t) and p.shape == tuple(cfg[a] for a in t), 'project(%r) -> %r' % (t, p))
        chk(dom.transpose(t) == p, 'transpose(%r)' % (t,))
        m = dom.marginalize(t)
        chk(m.attrs == tuple(a for a in attrs if a not in t) and m.shape == tuple(cfg[a] for a in m.attrs), 'marginalize(%r) -> %r' % (t, m))
        chk(list(dom.invert(t)) == [a for a in attrs if a not in t], 'invert(%r)' % (t,))
        chk(tuple(dom.canonical(t)) == tuple(a for a in attrs if a in t), 'canonical(%r)' % (t,))
        chk(tuple(dom.axes(t)) == tuple(attrs.index(a) for a in t), 'axes(%r)' % (t,))
        chk(dom.size(list(t)) == int(np.prod([cfg[a] for a in t])) if t else dom.size(list(t)) == 1, 'size(%r)' % (t,))
        chk(dom.contains(p) and (p.contains(dom) == (set(t) == set(attrs))), 'contains(%r)' % (t,))
        if all(isinstance(a, str) for a in attrs):    # sort('size') looks attributes up one by one: only string names are accepted there
            s = p.sort('size')
            exp = sorted(t, key=lambda a: cfg[a])
            chk(s.attrs == tuple(exp) and s.shape == tuple(cfg[a] for a in exp), "sort('size') of %r -> %r" % (t, s))
        s = p.sort('name')
        chk(s.attrs == tuple(sorted(t)) and s.shape == tuple(cfg[a] for a in sorted(t)), "sort('name') of %r -> %r" % (t, s))
        for a in attrs:
            chk((a in p) == (a in t), '__contains__')
        for a in t:
            chk(p[a] == cfg[a], '__getitem__')
        if len(t) == 1 and isinstance(t[0], str):
            chk(dom.project(t[0]).attrs == (t[0],), 'project(str)')
        for t2 in tl:
            q = dom.project(list(t2))
            mg = p.merge(q)
            ea = list(t) + [a for a in t2 if a not in t]
            chk(mg.attrs == tuple(ea) and mg.shape == tuple(cfg[a] for a in ea), 'merge(%r,%r) -> %r' % (t, t2, mg))
            chk(p.contains(q) == (set(t2) <= set(t)), 'contains(%r,%r)' % (t, t2))
            chk((p == q) == (tuple(t) == tuple(t2)), '__eq__(%r,%r)' % (t, t2))
            acc.case({'dom': dn, 'law-pair': [t, t2]}, nontrivial=bool(set(t) & set(t2)))
    return fails


def run_job(job):
    acc = Acc()
    dn = job['dom']
    if job.get('laws'):
        fails = domain_laws(acc, dn) + (big_domain_laws(acc) + dtype_cases(acc) if dn == 'BA' else [])
        if fails:
            acc.violate({'dom': dn, 'laws': True}, {'kind': 'domain-law', 'law': fails[0].split('(')[0]}, '; '.join(fails[:6]))
        acc.outcome('laws:%s' % ('ok' if not fails else 'FAIL'))
        return acc
    rs = record_sets(DOMAINS[dn][1], job['tier'])
    for i in range(job['lo'], job['hi']):
        recs = rs[i]
        for wk in WEIGHTS:
            for fr in FRAMES:
                case = {'dom': dn, 'records': recs if len(recs) <= 8 else {'cell': recs[0], 'times': len(recs)}, 'idx': i, 'weights': wk, 'frame': fr, 'tier': job['tier']}
                acc.case(case, nontrivial=len(recs) >= 2)
                fails = dataset_case(acc, dn, recs, wk, fr)
                acc.outcome('dataset:%s' % ('ok' if not fails else 'FAIL'))
                if fails:
                    acc.violate(case, {'kind': 'dataset', 'weights': wk, 'frame': fr}, '; '.join(fails[:4]))
    acc.sample({'domain': DOMAINS[dn], 'records': rs[job['hi'] - 1][:5], 'weights': 'mixed', 'frame': 'shuffled-columns', 'projections': 'all ordered tuples'})
    return acc


def replay(case):
    acc = Acc()
    if case.get('laws'):
        fails = domain_laws(acc, case['dom']) + (big_domain_laws(acc) + dtype_cases(acc) if case['dom'] == 'BA' else [])
    else:
        recs = record_sets(DOMAINS[case['dom']][1], case['tier'])[case['idx']]
        fails = dataset_case(acc, case['dom'], recs, case['weights'], case['frame'])
    for f in fails:
        print(f)
    return [{'key': {'kind': 'dataset'}, 'msg': '; '.join(fails[:6])}] if fails else []
