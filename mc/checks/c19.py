"""C19 - public-data reweighting yields valid weights and never a worse fit.

E1 x E3: all multisets of <= 3 public records over a 6-cell domain x measurement structures x
query kinds x noise scales x totals, plus two-call histories on one object (weights persist);
oracle: weight validity, unchanged public frame, loss recomputed from weighted counts."""
import itertools

import numpy as np

from ..core import Acc
from .. import oracle as O
from .. import meas as M

PROPERTY = 'C19'
LEVEL = 'model_checking'
DESIGN_REF = 'DESIGN.md section 5 / C19'
TECHNIQUE = ('exhaustive enumeration of small public datasets (all multisets of <= 3 records) x measurement alphabets and of two-call histories on the real '
             'PublicInference; weights/frame validity and harness-recomputed loss against the uniformly weighted public data')
RULE = ('case = (public multiset, private data, structure, query kind, sigma, total mode, history); public datasets: ALL non-empty multisets of <= 3 records '
        'over the 6 cells of (A:2,B:3) (83), incl. ones disjoint from the private support; structures {A}, {AB}, {A,B}, {AB,B}, {AB,BA}, {BA} and two with exactly repeated cliques (later repeats 40x noisier); kinds identity/prefix/stacked (histogram + its total)/doubled; '
        'sigma {0.5,2}; totals {1, N, None}, given totals spelled as float/int/numpy scalar types (rotated); histories: second estimate call on the same object (same list object refilled) with two (quick) / three (thorough: prefix kind, sigma 2, totals N/None) other structures (validity clauses). '
        'states = (object, history) nodes, transitions = estimate calls; non-trivial = >= 2 public records; distinct = digest of the case.')
LEVEL_TEXT = ('Every public dataset of the small scope is reweighted against every measurement configuration of the alphabet; the returned weights must be '
              'finite, nonnegative, one per public record, sum to the given or independently estimated total, leave the public records unchanged, '
              'and fit no worse than the uniformly weighted public data (loss recomputed by the harness from weighted counts). Two-call histories '
              'check that persisted weights keep the validity clauses.')
LEVEL_NOTE = ('The fit clause is decided on fresh objects (the statement quantifies over inputs; a second call started from persisted weights may end 0.03% '
              'above the uniform loss when the public support cannot express the new target).')
ASSUMPTIONS = ['total=None reference: dense pseudo-inverse minimum-variance estimate (as in C09)']

ATTRS = ['A', 'B']
SIZES = [2, 3]
STRUCTS = {'A': [('A',)], 'AB': [('A', 'B')], 'A-B': [('A',), ('B',)], 'AB-B': [('A', 'B'), ('B',)], 'AB-BA': [('A', 'B'), ('B', 'A')], 'BA': [('B', 'A')]}
# exactly the same clique measured several times (precise first, then much noisier)
STRUCTS_DUP = {'AB-AB': [('A', 'B'), ('A', 'B')], 'B-A-B-B': [('B',), ('A',), ('B',), ('B',)]}
PRIVATE = {
    'p1': [(0, 0)] * 5 + [(1, 2)] * 3 + [(0, 1)] * 2,
    'p2': [(1, 0), (1, 1), (1, 2), (0, 2)],
    'p3': [(0, 1)] * 12,
    'p4': [(0, 0)] * 120 + [(1, 2)] * 90 + [(0, 2)] * 60 + [(1, 0)] * 30,
}
# extra (private, sigma) regimes: near-exact measurements of large counts (residual/sigma^2 ~ 1e10: every trial step overshoots
# until the step size is ~1e-10) and noise-dominated measurements of a tiny dataset (the linear total estimate is negative)
TOTAL_TYPES = ['float', 'np.int64', 'int', 'np.float32', 'np.float64', 'np.int32']
EXTREME = [('p4', 1e-4), ('p4', 1e-5), ('p2', 60.0)]


def bounds(tier):
    return {'public': 'all 83 non-empty multisets of <= 3 records over 6 cells' if tier == 'thorough' else 'all 27 multisets of <= 2 records + every fifth 3-record multiset', 'structures': list(STRUCTS), 'kinds': ['identity', 'prefix', 'stacked (histogram + its total)', 'doubled (every cell twice)'],
            'sigmas': [0.5, 2.0], 'totals': ['1', 'N', 'None'], 'private': list(PRIVATE) if tier == 'thorough' else 'rotated', 'history_depth': 2}


def publics():
    cells = list(itertools.product(range(2), range(3)))
    out = []
    for r in range(1, 4):
        out.extend([list(c) for c in itertools.combinations_with_replacement(cells, r)])
    return out


def jobs(tier, seed):
    pubs = publics()
    if tier == 'quick':
        # all multisets of <= 2 records (27) + every fifth 3-record multiset; one PublicInference call costs ~1 s (250 inner iterations)
        idx = list(range(27)) + list(range(27, len(pubs), 5))
        return [{'idx': [i], 'tier': tier, 'seed': seed} for i in idx]
    return [{'idx': [i], 'tier': tier, 'seed': seed} for i in range(len(pubs))]


def build_measurements(struct, kind, sigma, priv, seed):
    rng = np.random.RandomState(seed * 101 + len(struct) * 7 + int(sigma * 10))
    table = np.zeros(SIZES)
    for r in PRIVATE[priv]:
        table[r] += 1
    ms, dense = [], []
    seen = []
    for cl in (STRUCTS.get(struct) or STRUCTS_DUP[struct]):
        x = O.marginal(table, ATTRS, cl).flatten()
        n = x.size
        # 'stacked' = histogram plus its own total, 'doubled' = every cell asked twice: equal column sums, linearly dependent rows
        Q = {'identity': np.eye(n), 'prefix': np.tril(np.ones((n, n))), 'stacked': np.vstack([np.eye(n), np.ones((1, n))]),
             'doubled': np.vstack([np.eye(n), np.eye(n)])}[kind]
        s_ = sigma * 40.0 if cl in seen else sigma     # a repeated clique: the later measurements are much noisier than the first
        seen.append(cl)
        y = Q @ x + s_ * rng.randn(Q.shape[0])
        # one-attribute cliques are spelled as the bare attribute name for the prefix kind (a legal spelling of a projection)
        ms.append((Q.copy(), y.copy(), s_, cl[0] if (len(cl) == 1 and kind == 'prefix') else tuple(cl)))
        dense.append((Q, y, s_, tuple(cl)))
    return ms, dense


def weighted_loss(pub, w, dense):
    table = np.zeros(SIZES)
    for r, wi in zip(pub, w):
        table[tuple(r)] += wi
    f = 0.0
    for Q, y, s, cl in dense:
        x = O.marginal(table, ATTRS, cl).flatten()
        r = (Q @ x - y) / s
        f += 0.5 * float(r @ r)
    return f


def ref_total(dense):
    est, var = [], []
    for Q, y, s, cl in dense:
        o = np.ones(Q.shape[1])
        v = np.linalg.pinv(Q.T) @ o
        if np.abs(Q.T @ v - o).max() <= 1e-8:
            est.append(float(v @ y))
            var.append(s * s * float(v @ v))
    if not est:
        return 1.0
    w = 1.0 / np.array(var)
    return max(1.0, float(np.sum(w * np.array(est)) / np.sum(w)))


def check_result(pub, frame0, est, dense, T, fit_clause, what, sum_rtol=1e-9):
    from mbi import Dataset
    fails = []
    if not isinstance(est, Dataset):
        return [('type', '%s: returned %r' % (what, type(est)))]
    w = est.weights
    if w is None or np.asarray(w).shape != (len(pub),):
        return [('shape', '%s: weights have shape %r for %d public records' % (what, None if w is None else np.asarray(w).shape, len(pub)))]
    w = np.asarray(w, dtype=float)
    if not np.all(np.isfinite(w)):
        fails.append(('non-finite', '%s: weights contain non-finite values' % what))
        return fails
    if w.min() < 0:
        fails.append(('negative', '%s: negative weight %.3g' % (what, w.min())))
    if abs(w.sum() - T) > sum_rtol * max(1.0, T):
        fails.append(('sum', '%s: weights sum to %.12g, expected total %.12g' % (what, w.sum(), T)))
    if list(est.df.columns) != ATTRS or not np.array_equal(est.df.values, frame0):
        fails.append(('frame-changed', '%s: the returned records differ from the public records' % what))
    if fit_clause:
        f = weighted_loss(pub, w, dense)
        fu = weighted_loss(pub, np.ones(len(pub)) * T / len(pub), dense)
        if f > fu * (1 + max(1e-9, 10 * sum_rtol if sum_rtol > 1e-9 else 0)) + 1e-12:
            fails.append(('worse-than-uniform', '%s: loss %.10g of the reweighted data is worse than the uniformly weighted public data %.10g' % (what, f, fu)))
    return fails


def run_public(acc, pi, tier, seed, only=None):
    import pandas as pd
    from mbi import Dataset, Domain, PublicInference
    pub = publics()[pi]
    dom = Domain(ATTRS, SIZES)
    frame0 = np.array(pub, dtype=int).reshape(len(pub), 2)
    # one PublicInference call costs ~2 s: thorough runs all private datasets for the publics of <= 2 records, a rotated one for 3-record publics
    privs = ['p1', 'p2', 'p3'] if (tier == 'thorough' and len(pub) <= 2) else [['p1', 'p2', 'p3'][pi % 3]]
    sts = list(STRUCTS) if tier == 'thorough' else [list(STRUCTS)[(pi + j) % 6] for j in (0, 1, 3, 4)]
    combos = [(priv, struct, kind, sigma) for priv in privs for struct, kind, sigma in itertools.product(sts, ['identity', 'prefix'], [0.5, 2.0])
              if not (tier == 'quick' and (kind == 'identity') != (sigma == 0.5))]
    ex = EXTREME if tier == 'thorough' else [EXTREME[pi % 3]]
    combos += [(priv, struct, 'identity' if list(STRUCTS).index(struct) % 2 == 0 else 'prefix', sigma) for (priv, sigma) in ex
               for struct in (STRUCTS if tier == 'thorough' else [list(STRUCTS)[pi % 6], list(STRUCTS)[(pi + 1) % 6]])]
    combos += [(['p1', 'p2', 'p3'][pi % 3], sd, ['identity', 'prefix'][(pi + j_) % 2], 0.5) for j_, sd in enumerate(STRUCTS_DUP)]
    combos += [(['p1', 'p2', 'p3'][(pi + 1) % 3], list(STRUCTS)[(pi + 2) % 6], ['stacked', 'doubled'][pi % 2], 2.0)]
    if tier == 'thorough':
        combos += [(['p1', 'p2', 'p3'][(pi + 1) % 3], list(STRUCTS)[(pi + 5) % 6], ['doubled', 'stacked'][pi % 2], 0.5)]
    for priv, struct, kind, sigma in combos:
        N = float(len(PRIVATE[priv]))
        if True:
            if only is not None and (only['priv'], only['struct'], only['kind'], only['sigma']) != (priv, struct, kind, sigma):
                continue
            ms, dense = build_measurements(struct, kind, sigma, priv, seed)
            k_ = (list(STRUCTS).index(struct) if struct in STRUCTS else 6) + (0 if kind == 'identity' else 1) + pi
            for tmode in (['1', 'N', 'None'] if tier == 'thorough' else [['1', 'N', 'None'][k_ % 3]]):
                if only is not None and only['total'] != tmode:
                    continue
                total = {'1': 1.0, 'N': N, 'None': None}[tmode]
                T = total if total is not None else ref_total(dense)
                # a supplied total may be spelled as any real scalar type (rotated over the configurations)
                ttype = 'float'
                if total is not None:
                    ttype = TOTAL_TYPES[(k_ + 2 * pi + len(priv)) % len(TOTAL_TYPES)] if only is None else only.get('ttype', 'float')
                    total = {'float': float, 'int': int, 'np.int64': np.int64, 'np.int32': np.int32, 'np.float32': np.float32, 'np.float64': np.float64}[ttype](total)
                sum_rtol = 1e-6 if ttype == 'np.float32' else 1e-9    # single-precision total: honoured to single precision
                # every third configuration: the public dataset carries weights of its own (a 0/1 mask); the reference of the
                # property is still the UNIFORMLY weighted public data
                pubw = np.array([float((i_ + pi) % 2) for i_ in range(len(pub))]) if (k_ % 3 == 0 and len(pub) >= 2) else None
                data = Dataset(pd.DataFrame(frame0.copy(), columns=ATTRS), dom, pubw)
                eng = PublicInference(data)
                ms_call = [(Q.copy(), y.copy(), s, cl) for Q, y, s, cl in ms]
                with M.quiet():
                    est = eng.estimate(ms_call, total=total)
                inputs_changed = any(not np.array_equal(a[1], b[1]) or not np.array_equal(np.asarray(a[0]), np.asarray(b[0])) for a, b in zip(ms_call, ms))
                case = {'pi': pi, 'public': pub, 'priv': priv, 'struct': struct, 'kind': kind, 'sigma': sigma, 'total': tmode, 'ttype': ttype, 'second': None, 'seed': seed, 'tier': tier}
                acc.case(case, nontrivial=len(pub) >= 2)
                acc.states += 1
                acc.transitions += 1
                acc.traces += 1
                fails = check_result(pub, frame0, est, dense, T, True, 'first call (total given as %s)' % ttype, sum_rtol)
                if inputs_changed:
                    fails.append(('inputs-mutated', 'estimate modified the caller\'s measurement arrays (a later call on the same arrays fits different answers)'))
                acc.outcome('fresh:%s' % ('ok' if not fails else 'FAIL'))
                for kd, msg in fails:
                    acc.violate(case, {'kind': kd, 'call': 1}, 'public %r, %s/%s/sigma=%g/total=%s: %s' % (pub, struct, kind, sigma, tmode, msg))
                # history: a second call on the same object with every other structure (validity clauses only)
                hist_here = (struct == list(STRUCTS)[pi % 6] and kind == 'prefix') if tier == 'quick' else (kind == 'prefix' and sigma == 2.0 and tmode != '1' and priv == ['p1', 'p2', 'p3'][pi % 3] and struct in STRUCTS)
                if hist_here or (only is not None and only.get('second')):
                    si_ = list(STRUCTS).index(struct) if struct in STRUCTS else 0
                    names_ = list(STRUCTS)
                    if only is not None:
                        menu2 = names_
                    elif tier == 'thorough':
                        menu2 = [names_[(si_ + 1) % 6], names_[(si_ + 3) % 6], names_[(si_ + 4) % 6]]
                    else:
                        menu2 = [names_[(pi + 1) % 6], names_[(pi + 4) % 6]]
                    for s2 in menu2:
                        if s2 == struct or (only is not None and only['second'] != s2):
                            continue
                        ms2, dense2 = build_measurements(s2, 'prefix' if kind == 'identity' else 'identity', sigma, priv, seed + 1)
                        T2 = total if total is not None else ref_total(dense2)
                        # rebuild the first call's state by replaying it (objects are cheap)
                        eng2 = PublicInference(Dataset(pd.DataFrame(frame0.copy(), columns=ATTRS), dom))
                        with M.quiet():
                            # the caller keeps ONE list object and replaces its contents between the calls
                            lst = [(Q.copy(), y.copy(), s, cl) for Q, y, s, cl in ms]
                            eng2.estimate(lst, total=total)
                            lst[:] = list(ms2)
                            est2 = eng2.estimate(lst, total=total)
                        c2 = dict(case, second=s2)
                        acc.case(c2, nontrivial=len(pub) >= 2)
                        acc.states += 1
                        acc.transitions += 2
                        acc.traces += 1
                        fails = check_result(pub, frame0, est2, dense2, T2, False, 'second call (%s after %s, same list object refilled)' % (s2, struct), sum_rtol)
                        acc.outcome('second:%s' % ('ok' if not fails else 'FAIL'))
                        for kd, msg in fails:
                            acc.violate(c2, {'kind': kd, 'call': 2}, 'public %r: %s' % (pub, msg))


def run_job(job):
    acc = Acc()
    for pi in job['idx']:
        run_public(acc, pi, job['tier'], job['seed'])
    acc.sample({'public': publics()[job['idx'][0]], 'private': 'p1', 'structure': 'AB-B', 'kind': 'prefix', 'sigma': 2.0, 'total': 'None', 'second_call': 'A'})
    return acc


def replay(case):
    from .. import core
    core.MAX_VIOL_PER_JOB = 10 ** 6
    acc = Acc()
    run_public(acc, case['pi'], 'thorough', case['seed'], only=case)
    keys = ('priv', 'struct', 'kind', 'sigma', 'total', 'second')
    vs = [v for v in acc.violations if all(v['case'].get(k) == case.get(k) for k in keys)]
    for v in vs:
        print(v['msg'])
    return vs
