"""C03 - estimation attains the global optimum over all distributions.

E1: every measurement structure of the menu x truths x solvers x total modes; oracle =
certified reference optimum (FISTA on the explicit joint + Frank-Wolfe gap)."""
import numpy as np

from ..core import Acc
from .. import oracle as O
from .. import meas as M

PROPERTY = 'C03'
LEVEL = 'exploration'
DESIGN_REF = 'DESIGN.md section 5 / C03'
TECHNIQUE = ('exhaustive enumeration of measurement structures x solvers x total modes on the real estimate(); loss compared with an '
             'independently computed, duality-gap-certified optimum over the explicit joint')
RULE = ('case = (domain, structure, truth kind, solver, total mode); structures: all non-empty subsets of size <=3 of a 7-entry '
        'projection menu on (A,B,C) (63; disjoint, overlapping, nested, cyclic, out-of-order attributes) with query kind and noise scale '
        'rotated over {dense, None, sparse, operator, prefix, tall} x {1, 0.5, 4}; thorough adds a 4-attribute menu. '
        'reuse jobs hand ONE measurement list (same tuples and arrays) to two other estimators first. non-trivial = >= 2 measurements; distinct = digest of the case.')
LEVEL_TEXT = ('Every structure of the menu is estimated with each solver and the attained squared-error loss is compared with a reference '
              'optimum over all nonnegative tables with the same total, which is accepted only with a Frank-Wolfe gap certificate. '
              'Convergence is a limit statement; it is decided at a fixed iteration count with a tolerance relative to the distance '
              'between the uniform start and the optimum.')
LEVEL_NOTE = ('600 iterations / 1e-2 of the range in quick, 3000 / 1e-3 in thorough (calibrated margins >= 4x / 18x on the unchanged tree); '
              'noisy answers are represented by two hidden truths x seeded noise, not enumerated.')
ASSUMPTIONS = ['reference optimum certified by its own duality gap (<= 1e-9 of the range is asserted)',
               'single-cell projections and all-zero queries are outside the alphabet']


def bounds(tier):
    return {'iterations': 600 if tier == 'quick' else 3000, 'tau': 1e-2 if tier == 'quick' else 1e-3,
            'structures': '21 of 63 (every third + the cyclic triple), 1 truth, known total' if tier == 'quick' else
            'all 63 x 2 truths x {known, None} + 40 structures of the 4-attribute menu', 'extra': '3 structures around a chordless 5-cycle on 5 attributes; total 1 with noise 2e-5 (MD)', 'solvers': ['MD', 'RDA', 'IG']}


def jobs(tier, seed):
    out = []
    s3 = M.structures(M.MENU3, 3)
    if tier == 'quick':
        idx = sorted(set(list(range(0, len(s3), 3)) + [s3.index((('A', 'B'), ('B', 'C'), ('C', 'A'))), s3.index((('B',), ('A', 'B'), ('B', 'C')))]))
        for si in idx:
            for eng in ['MD', 'RDA', 'IG']:
                out.append({'dom': 3, 'si': si, 'truth': ['pos', 'sparse'][si % 2], 'engine': eng, 'total': 'known' if si % 4 else 'none',
                            'iters': 600, 'tau': 1e-2, 'seed': seed, 'prior': si % 2 == 1, 'listproj': si % 3 == 0, 'reuse': si % 6 in (0, 4)})
        for xi in range(len(EXTRA3)):
            for eng in ['MD', 'RDA', 'IG']:
                out.append({'dom': 3, 'si': 1000 + xi, 'truth': 'pos', 'engine': eng, 'total': 'known', 'iters': 600, 'tau': 1e-2, 'seed': seed,
                            'listproj': xi % 2 == 1})
    else:
        for si in range(len(s3)):
            for tk in ['pos', 'sparse']:
                for eng in ['MD', 'RDA', 'IG']:
                    for tot in ['known', 'none']:
                        out.append({'dom': 3, 'si': si, 'truth': tk, 'engine': eng, 'total': tot, 'iters': 3000, 'tau': 1e-3, 'seed': seed, 'prior': tot == 'none',
                                    'listproj': tk == 'sparse', 'reuse': (tk == 'pos') != (tot == 'none')})
        for xi in range(len(EXTRA3)):
            for eng in ['MD', 'RDA', 'IG']:
                out.append({'dom': 3, 'si': 1000 + xi, 'truth': 'sparse', 'engine': eng, 'total': 'none', 'iters': 3000, 'tau': 1e-3, 'seed': seed, 'listproj': xi % 2 == 0})
        s4 = M.structures(M.MENU4, 3)
        for si in range(0, len(s4), 2):
            for eng in ['MD', 'RDA', 'IG']:
                out.append({'dom': 4, 'si': si, 'truth': ['pos', 'sparse'][si % 2], 'engine': eng, 'total': 'known', 'iters': 3000, 'tau': 1e-3, 'seed': seed})
    # 5 attributes: measurement cliques with a chordless 5-cycle (fill-in between fill-in neighbours) plus noisy one-way marginals
    for xi in range(len(STRUCTS5)):
        for eng in ['MD', 'RDA', 'IG']:
            out.append({'dom': 5, 'si': xi, 'truth': 'pos', 'engine': eng, 'total': 'known', 'iters': 600 if tier == 'quick' else 3000,
                        'tau': 1e-2 if tier == 'quick' else 1e-3, 'seed': seed})
    # extreme scale: total 1 with noise 2e-5 (loss ~1e10 at the start; the first accepted mirror-descent step is ~2^-30 of the default one)
    for si in ([2, 3, 5] if tier == 'quick' else [0, 2, 3, 5, 9, 20]):
        out.append({'dom': 3, 'si': si, 'truth': 'pos', 'engine': 'MD', 'total': 'known', 'iters': 3000, 'tau': 1e-2, 'seed': seed, 'scale': 'tiny-noise'})
    # a total below one record (known and left to be estimated: the estimate is floored at 1)
    for si in ([4, 11, 30] if tier == 'quick' else [1, 4, 11, 17, 30, 44]):
        for eng in ['MD', 'RDA', 'IG']:
            out.append({'dom': 3, 'si': si, 'truth': 'pos', 'engine': eng, 'total': 'known' if si % 2 == 0 else 'none', 'iters': 600 if tier == 'quick' else 3000,
                        'tau': 1e-2 if tier == 'quick' else 1e-3, 'seed': seed, 'scale': 'small-total'})
    return out


ATTRS5 = ['A', 'B', 'C', 'D', 'E']
SIZES5 = [2, 2, 3, 2, 2]
CYCLE5 = (('A', 'B'), ('B', 'C'), ('C', 'D'), ('D', 'E'), ('E', 'A'))
STRUCTS5 = [CYCLE5 + (('A',), ('C',)), CYCLE5 + (('B',), ('D',), ('E',)), (('A', 'B'), ('B', 'C'), ('C', 'D'), ('D', 'E'), ('C', 'E'))]
EXTRA3 = [
    (('A', 'B'), ('B', 'A')),
    (('B', 'A'), ('A', 'B'), ('B', 'C')),
    (('C', 'A'), ('A', 'C'), ('B',)),
    (('A', 'B', 'C'), ('C', 'A', 'B')),
    # exactly the same projection measured several times with explicit (dense / sparse) queries and different noise levels
    (('A', 'B'), ('A', 'B')),
    (('B', 'C'), ('A', 'B'), ('B', 'C'), ('B', 'C')),
    # queries written with integer / bool entries (the answers are real numbers all the same)
    (('A', 'B'), ('B', 'C'), ('C',)),
]
EXTRA3_KINDS = {4: (['dense', 'sparse', 'prefix'], [0.5, 4.0, 1.0]), 5: (['sparse', 'dense', 'dense', 'prefix'], [4.0, 1.0, 0.5, 1.0]),
                6: (['intprefix', 'booleye', 'intprefix'], [0.5, 0.25, 1.0])}


def problem_for(job):
    if job['dom'] == 5:
        struct = STRUCTS5[job['si']]
        return ATTRS5, SIZES5, struct, M.Problem(ATTRS5, SIZES5, struct, job['si'], job['truth'], job['seed'], kinds=['dense', 'sparse', 'none', 'prefix'])
    if job.get('scale') == 'small-total':
        struct = M.structures(M.MENU3, 3)[job['si']]
        return M.ATTRS3, M.SIZES3, struct, M.Problem(M.ATTRS3, M.SIZES3, struct, job['si'], job['truth'], job['seed'], total=0.4, noise_mult=0.02)
    if job.get('scale') == 'tiny-noise':
        struct = M.structures(M.MENU3, 3)[job['si']]
        return M.ATTRS3, M.SIZES3, struct, M.Problem(M.ATTRS3, M.SIZES3, struct, job['si'], job['truth'], job['seed'], total=1.0, noise_mult=1.0,
                                                      kinds=['dense', 'sparse', 'prefix'], sigmas=[2e-5])
    if job['dom'] == 3 and job['si'] >= 1000:
        attrs, sizes, struct = M.ATTRS3, M.SIZES3, EXTRA3[job['si'] - 1000]
    elif job['dom'] == 3:
        attrs, sizes, struct = M.ATTRS3, M.SIZES3, M.structures(M.MENU3, 3)[job['si']]
    else:
        attrs, sizes, struct = M.ATTRS4, M.SIZES4, M.structures(M.MENU4, 3)[job['si']]
    if job['dom'] == 3 and job['si'] - 1000 in EXTRA3_KINDS:
        kinds, sigmas = EXTRA3_KINDS[job['si'] - 1000]
        return attrs, sizes, struct, M.Problem(attrs, sizes, struct, 0, job['truth'], job['seed'], kinds=kinds, sigmas=sigmas)
    return attrs, sizes, struct, M.Problem(attrs, sizes, struct, job['si'], job['truth'], job['seed'])


def evaluate(job):
    from mbi import Domain, FactoredInference
    M.deterministic_eigsh()
    attrs, sizes, struct, prob = problem_for(job)
    # every fifth structure runs with the optional progress logger switched on (it must only observe)
    eng = FactoredInference(Domain(attrs, sizes), iters=job['iters'], log=(job['dom'] == 3 and job['si'] % 5 == 0))
    with M.quiet():
        if job.get('prior'):
            # the engine has been used before on two other structures (estimation is history-free without warm start, see C13)
            for d_ in (7, 23):
                st_ = M.structures(M.MENU3 if job['dom'] == 3 else M.MENU4, 3)
                pj = M.Problem(attrs, sizes, st_[(job['si'] + d_) % len(st_)], job['si'] + d_, 'pos', job['seed'])
                eng.iters = 5
                eng.estimate(pj.fresh_measurements(), total=pj.T, engine=job['engine'])
            eng.iters = job['iters']
        ms_ = prob.fresh_measurements()
        if job.get('listproj'):
            ms_ = [(Q, y, s_, list(pr)) for (Q, y, s_, pr) in ms_]   # projections spelled as lists (order as given)
        if job.get('reuse'):
            # the caller keeps ONE measurement list (the same tuples and arrays) and has already handed it to two other estimators,
            # as a mechanism that grows one list round by round does; the measurements are the caller's and still say what they said
            for _ in range(2):
                FactoredInference(Domain(attrs, sizes), iters=3).estimate(ms_, total=prob.T if job['total'] == 'known' else None, engine=job['engine'])
        model = eng.estimate(ms_, total=prob.T if job['total'] == 'known' else None, engine=job['engine'])
    T = float(model.total)
    p = np.asarray(model.datavector(), dtype=float)
    fails = []
    info = {}
    if job['total'] == 'known' and model.total != prob.T:
        fails.append(('total', 'model.total=%r but %r was supplied' % (model.total, prob.T)))
    if not (np.all(np.isfinite(p)) and p.min() >= -1e-12 * T and abs(p.sum() - T) <= 1e-9 * T):
        fails.append(('table', 'datavector is not a nonnegative table with the model total: min %.3g sum %.12g total %.12g' % (p.min(), p.sum(), T)))
        return struct, fails, info
    fp = prob.f(p)
    # the same loss recomputed from project() answers (in-clique path) must agree
    f2 = 0.0
    for (Qd, y, s, cl, kd) in prob.dense:
        x = np.asarray(model.project(cl).datavector(), dtype=float)
        r = (Qd @ x - y) / s
        f2 += 0.5 * float(r @ r)
    if not abs(f2 - fp) <= 1e-7 * max(1.0, abs(fp)):
        fails.append(('two-representations', 'loss from project() answers %.10g differs from loss of datavector() %.10g' % (f2, fp)))
    pref, fref, gap = prob.reference(T)
    fu = prob.f(prob.uniform(T))
    rng_ = max(fu - fref, 0.0)
    if gap > 1e-9 * max(rng_, 1e-9 * max(1.0, fref)) + 1e-12:
        raise RuntimeError('reference solver did not certify: gap %.3g range %.3g' % (gap, rng_))
    excess = fp - fref
    info = {'ratio': excess / rng_ if rng_ > 0 else 0.0, 'f': fp, 'fref': fref, 'fu': fu, 'gap': gap}
    if excess > job['tau'] * rng_ + 1e-9 * max(1.0, fref):
        fails.append(('above-optimum', 'loss %.10g is above the certified optimum %.10g by %.3g = %.3g of the uniform-to-optimum range %.6g (tolerance %g)' % (
            fp, fref, excess, excess / rng_ if rng_ else float('inf'), rng_, job['tau'])))
    if fp < fref - gap - 1e-9 * max(1.0, fref):
        fails.append(('below-optimum', 'loss %.12g is below the certified minimum %.12g (gap %.3g): model is not a table over the domain with this total' % (fp, fref, gap)))
    if fp > fu * (1 + 1e-12) + 1e-12:
        fails.append(('worse-than-uniform', 'loss %.10g is worse than the uniform start %.10g' % (fp, fu)))
    return struct, fails, info


def run_job(job):
    acc = Acc()
    struct, fails, info = evaluate(job)
    case = dict(job, struct=[list(c) for c in struct])
    acc.case(case, nontrivial=len(struct) >= 2)
    if info:
        acc.maximum('excess_over_range:%s' % job['engine'], info['ratio'], case)
    acc.outcome('%s:%s' % (job['engine'], 'ok' if not fails else 'FAIL'))
    for kind, msg in fails:
        acc.violate(case, {'kind': kind, 'engine': job['engine']}, 'structure %r truth %s total %s: %s' % (struct, job['truth'], job['total'], msg))
    acc.sample(case)
    return acc


def replay(case):
    struct, fails, info = evaluate(case)
    print(info)
    for k, m in fails:
        print(k, m)
    return [{'key': {'kind': k, 'engine': case['engine']}, 'msg': m} for k, m in fails]
