"""C08 - the returned model is one coherent, valid distribution.

E1: structures (incl. empty) x totals x solvers x iteration counts {1,2,3,10,50} x
structural zeros x early-exit inputs; oracle: stored marginals == BP(stored
parameters) and every project() answer == marginal of the explicit joint of the
stored parameters."""
import itertools

import numpy as np

from ..core import Acc
from .. import envctl as E
from .. import oracle as O
from .. import meas as M
from .. import structs as S

PROPERTY = 'C08'
LEVEL = 'exploration'
DESIGN_REF = 'DESIGN.md section 5 / C08'
TECHNIQUE = ('exhaustive enumeration of measurement structures x solvers x iteration counts x early-exit inputs on the real estimate(); '
             'stored marginals vs BP(stored parameters) and every query vs the explicit joint of the stored parameters')
RULE = ('case = (structure, total, solver, iterations, structural zero, input kind); structures: the 63 subsets of the 3-attribute menu '
        'plus the empty list; totals {1, 37.5, None}; iterations {1,2,3,10,50}; input kind {noisy, exactly-uniform answers (loss 0 at start)}; '
        'for iterations = 10 the returned model is then used (synthetic_data in both modes, datavector, clique projections in both orders, bulk answers) and every clause re-evaluated after each use; non-trivial = >= 2 measurements; distinct = digest of the case.')
LEVEL_TEXT = ('Every (structure, solver, iteration count, exit path) combination of the alphabet is run and the returned object is checked for '
              'internal coherence: the two representations project() reads from must describe the same table, all answers finite, '
              'nonnegative, summing to the total and mutually consistent.')
LEVEL_NOTE = 'Values from a seeded alphabet; domain (A,B,C) with sizes (2,3,2); tolerance rtol 1e-7 + 1e-9*total.'
ASSUMPTIONS = ['RDA/IG store log(mu + 1e-100); 1e-100 is not counted as mass']

ITERS = [1, 2, 3, 10, 50]
LAST_RUNAWAY = False
TOTALS = [1.0, 37.5, None, 0.3]


def bounds(tier):
    return {'structures': '16 of 64' if tier == 'quick' else 'all 64', 'iterations': ITERS, 'totals': TOTALS,
            'solvers': ['MD', 'RDA', 'IG'], 'zeros': ['none', 'one cell'], 'inputs': ['noisy', 'uniform-answers'], 'md_fixed_step': 'L2 and L1 metric, step 5/50 (2/20) over total^2, iterations 1/3/10'}


# 4-attribute structures whose junction tree branches (the depth-first clique order backtracks)
# five attributes: a chordless 5-cycle (needs fill-in between fill-in neighbours), a 4-clique chain (out-of-clique queries far from the root)
ATTRS5 = ['A', 'B', 'C', 'D', 'E']
SIZES5 = [2, 2, 3, 2, 2]
STRUCTS5 = [
    (('A', 'B'), ('B', 'C'), ('C', 'D'), ('D', 'E'), ('E', 'A')),
    (('A', 'B'), ('B', 'C'), ('C', 'D'), ('D', 'E')),
    (('A', 'B'), ('B', 'C'), ('C', 'D'), ('D', 'E'), ('E', 'A'), ('C',)),
]
STRUCTS4 = [
    (('A', 'B', 'C'), ('A', 'D')),
    (('A', 'B'), ('A', 'D'), ('B', 'C')),
    (('A', 'B'), ('A', 'C'), ('A', 'D')),
    (('A', 'B'), ('B', 'C'), ('C', 'D')),
    (('A', 'B'), ('B', 'C'), ('C', 'D'), ('D', 'A')),
    (('B', 'A'), ('D', 'B'), ('C', 'B'), ('A',)),
    (('A', 'B', 'C'), ('B', 'C', 'D')),
    (('A', 'C'), ('B', 'D')),
    (('A', 'D'), ('C', 'D'), ('B', 'C')),          # the middle clique sorts after both neighbours
    (('A', 'D'), ('B', 'D'), ('C', 'D'), ('A',)),
]


USE_ITERS = 10


def all_structs():
    return [()] + M.structures(M.MENU3, 3)


def jobs(tier, seed):
    st = all_structs()
    idx = range(len(st)) if tier == 'thorough' else sorted(set([0, 1, 2, 6] + list(range(3, len(st), 5))))   # 6 = the single clique (A,B,C): a model without any message
    return [{'si': si, 'seed': seed} for si in idx] + [{'witness': 'F13', 'seed': seed}] + [{'si': 1000 + i, 'seed': seed} for i in range(len(STRUCTS4))] + [{'si': 2000 + i, 'seed': seed} for i in range(len(STRUCTS5))]


def coherence_failures(model, attrs, sizes, maxlen=2, tol_r=1e-7, tol_a=1e-9):
    """list of (kind, message) for one returned model"""
    fails = []
    T = float(model.total)
    pots = model.potentials
    joint = O.explicit_joint(attrs, sizes, [(tuple(pots[cl].domain.attrs), pots[cl].values) for cl in model.cliques], T)
    if joint is None:
        return [('no-finite-cell', 'stored parameters give no cell a finite potential')]
    # float resolution of the exponents: parameters of magnitude S cannot give answers more accurate than ~eps*S
    # (boundary optima drive the parameters to 1e6..1e8 within 50 iterations); the slack is capped at 1e-6
    allv = np.concatenate([np.asarray(pots[cl].values, dtype=float).flatten() for cl in model.cliques])
    fin = allv[np.isfinite(allv)]
    Smag = float(np.abs(fin).max()) if fin.size else 0.0
    global LAST_RUNAWAY
    LAST_RUNAWAY = Smag > 1e9   # parameters beyond ~1e9 cannot be evaluated to 1e-6 any more (known finding F13)
    slack = min(1e-6, 32 * 2.2e-16 * Smag)
    tol_r, tol_a = tol_r + slack, tol_a + slack
    if hasattr(model, 'marginals'):
        from mbi import Factor, CliqueVector
        for cl in model.cliques:
            if np.shares_memory(np.asarray(model.marginals[cl].values), np.asarray(pots[cl].values)):
                fails.append(('aliased', 'stored marginal and stored parameters of %r share one array' % (cl,)))
        # the check works on copies: it must never be the harness that makes the model consistent (or inconsistent)
        marg_snap = {cl: np.array(model.marginals[cl].values, dtype=float, copy=True) for cl in model.cliques}
        bp = model.belief_propagation(CliqueVector({cl: Factor(pots[cl].domain, np.array(pots[cl].values, copy=True)) for cl in model.cliques}))
        for cl in model.cliques:
            a = marg_snap[cl]
            b = np.asarray(bp[cl].values, dtype=float)
            if tuple(model.marginals[cl].domain.attrs) != tuple(cl) or not O.close(a, b, tol_r, tol_a * T):
                fails.append(('marginals-vs-parameters', 'stored marginal of %r differs from BP(stored parameters) by %.3g (total %g)' % (cl, O.maxdiff(a, b), T)))
                break
    tuples = [t for t in S.ordered_subtuples(attrs, maxlen=maxlen)] + [tuple(attrs)]
    for t in tuples:
        got = model.project(t)
        v = np.asarray(got.values, dtype=float)
        ref = O.marginal(joint, attrs, t)
        if tuple(got.domain.attrs) != tuple(t):
            fails.append(('axes', 'project(%r) returned axes %r' % (t, got.domain.attrs)))
            continue
        if not np.all(np.isfinite(v)):
            fails.append(('non-finite', 'project(%r) contains non-finite values' % (t,)))
            continue
        if v.min() < -1e-12 * T:
            fails.append(('negative', 'project(%r) has a negative entry %.3g' % (t, v.min())))
        if abs(v.sum() - T) > tol_a * T:
            fails.append(('sum', 'project(%r) sums to %.12g, total %.12g' % (t, v.sum(), T)))
        if not O.close(v, ref, tol_r, tol_a * T):
            fails.append(('answer-vs-joint', 'project(%r) differs from the joint of the stored parameters by %.3g (total %g): in-clique and out-of-clique answers disagree' % (t, O.maxdiff(v, ref), T)))
    return fails


def run_one(si, total, engine, iters, zero, kind, seed, opt=None):
    from mbi import Domain, FactoredInference
    M.deterministic_eigsh()
    attrs, sizes = M.ATTRS3, M.SIZES3
    if si >= 2000:
        attrs, sizes, struct = ATTRS5, SIZES5, STRUCTS5[si - 2000]
    elif si >= 1000:
        attrs, sizes, struct = M.ATTRS4, M.SIZES4, STRUCTS4[si - 1000]
    else:
        struct = all_structs()[si]
    prob = M.Problem(attrs, sizes, struct, si, 'uniform' if kind == 'uniform' else 'pos', seed,
                     total=total if total is not None else 41.0, noise_mult=0.0 if kind == 'uniform' else 2.0,
                     kinds=['dense', 'none', 'sparse', 'linop'] if kind == 'uniform' else None)
    zeros = {}
    if zero:
        cl = max(struct, key=len) if struct else ('A', 'B')
        zeros = {tuple(cl): [tuple([0] * len(cl))]}
        if zero == 'slice' and len(cl) >= 2:
            # a whole value of the LAST attribute of the clique is impossible (an entire separator value when that attribute is shared)
            rest = [range(sizes[attrs.index(a)]) for a in cl[:-1]]
            zeros = {tuple(cl): [tuple(c) + (0,) for c in itertools.product(*rest)]}
    eng = FactoredInference(Domain(attrs, sizes), iters=iters, structural_zeros=zeros, metric=(opt[0] if opt else 'L2'))
    with M.quiet():
        if opt:
            # mirror descent with a fixed step size (no line search; the only way to use the L1 metric): iterates are not monotone
            T_ = total if total is not None else 41.0
            model = eng.estimate(prob.fresh_measurements(), total=total, engine=engine, options={'stepsize': opt[1] / T_ ** 2})
        else:
            model = eng.estimate(prob.fresh_measurements(), total=total, engine=engine)
    if model is not eng.model:
        return struct, [('return', 'estimate did not return engine.model')]
    fails = coherence_failures(model, attrs, sizes)
    if total is not None and model.total != total:
        fails.append(('total', 'model.total %r != supplied %r' % (model.total, total)))
    if not fails and iters == USE_ITERS:
        # the returned model stays one coherent distribution while it is USED: every read-only entry point is called
        # (records generated under the C11 environment, bulk and single answers, the full vector), then the clauses are re-evaluated
        from .c11 import SynthEnv
        pots_snap = {cl: np.array(model.potentials[cl].values, copy=True) for cl in model.cliques}
        def synth(method, rows):
            with E.installed(SynthEnv(E.Controller([]))):
                model.synthetic_data(rows=rows, method=method)
        uses = [('synthetic_data(rows=37, method=round)', lambda: synth('round', 37)),
                ('synthetic_data(method=sample)', lambda: synth('sample', None)),
                ('datavector()', lambda: model.datavector()),
                ('project(each clique, both orders)', lambda: [model.project(t) for cl in model.cliques for t in (cl, tuple(reversed(cl)))]),
                ('calculate_many_marginals(all tuples <= 2)', lambda: model.calculate_many_marginals([t for t in S.ordered_subtuples(attrs, maxlen=2)]))]
        # the clauses are re-evaluated after EACH use (a later call may recompute, and so repair, the stored marginals)
        for name, fn in uses:
            with M.quiet():
                fn()
            for cl in model.cliques:
                if not np.array_equal(np.asarray(model.potentials[cl].values), pots_snap[cl], equal_nan=True):
                    fails.append(('parameters-changed-by-use', 'stored parameters of %r changed by %s' % (cl, name)))
            fails.extend((k + '-after-use', 'after %s: %s' % (name, m)) for k, m in coherence_failures(model, attrs, sizes))
            if fails:
                break
    return struct, fails


def run_job(job):
    acc = Acc()
    if job.get('witness') == 'F13':
        # fixed, seed-independent witness of known finding F13 (vertex optimum, 100 iterations, total 1)
        case = {'si': 3, 'total': 1.0, 'engine': 'MD', 'iters': 100, 'zero': False, 'kind': 'noisy', 'seed': 1}
        struct, fails = run_one(3, 1.0, 'MD', 100, False, 'noisy', 1)
        acc.case(dict(case, struct=struct))
        acc.outcome('witness-F13:%s' % ('reproduced' if fails else 'absent'))
        for kd in sorted({k for k, _ in fails}):
            acc.violate(dict(case, struct=[list(c) for c in struct]), {'kind': kd, 'engine': 'MD', 'empty': False, 'param_runaway': LAST_RUNAWAY},
                        'structure %r %s: %s' % (struct, case, '; '.join(m for k, m in fails if k == kd)[:600]))
        return acc
    si = job['si']
    for total, engine, iters, zero, kind in itertools.product(TOTALS, ['MD', 'RDA', 'IG'], ITERS, [False, True, 'slice'], ['noisy', 'uniform']):
        if kind == 'uniform' and (zero or iters not in (1, 10)):
            continue
        if zero == 'slice' and (iters not in (1, 10) or total == 37.5):
            continue
        case = {'si': si, 'total': total, 'engine': engine, 'iters': iters, 'zero': zero, 'kind': kind, 'seed': job['seed']}
        struct, fails = run_one(si, total, engine, iters, zero, kind, job['seed'])
        acc.case(dict(case, struct=struct), nontrivial=len(struct) >= 2)
        acc.outcome('%s:%s' % (engine, 'ok' if not fails else 'FAIL'))
        for kd in sorted({k for k, _ in fails}):
            acc.violate(dict(case, struct=[list(c) for c in struct]), {'kind': kd, 'engine': engine, 'empty': len(struct) == 0, 'param_runaway': LAST_RUNAWAY},
                        'structure %r %s: %s' % (struct, case, '; '.join(m for k, m in fails if k == kd)[:600]))
    # early exit after a warm start: a real first call, then a call that returns before iterating (empty list / exact answers)
    if si in (3, 4, 10, 1001):
        from mbi import Domain, FactoredInference
        for engine, second in itertools.product(['MD', 'RDA', 'IG'], ['empty', 'uniform']):
            attrs_, sizes_ = (M.ATTRS4, M.SIZES4) if si >= 1000 else (M.ATTRS3, M.SIZES3)
            st = STRUCTS4[si - 1000] if si >= 1000 else all_structs()[si]
            p1 = M.Problem(attrs_, sizes_, st, si, 'pos', job['seed'], total=37.5)
            p2 = M.Problem(attrs_, sizes_, st, si, 'uniform', job['seed'], total=37.5, noise_mult=0.0, kinds=['dense', 'none', 'sparse', 'linop'])
            eng = FactoredInference(Domain(attrs_, sizes_), iters=10, warm_start=True, structural_zeros={tuple(st[0]): [tuple([0] * len(st[0]))]})
            with M.quiet():
                eng.estimate(p1.fresh_measurements(), total=37.5, engine=engine)
                model = eng.estimate([] if second == 'empty' else p2.fresh_measurements(), total=37.5, engine=engine)
            fails = coherence_failures(model, attrs_, sizes_)
            case = {'si': si, 'warm-history': ['noisy', second], 'engine': engine, 'seed': job['seed']}
            acc.case(case)
            acc.outcome('warm-early-exit:%s' % ('ok' if not fails else 'FAIL'))
            for kd in sorted({k for k, _ in fails}):
                acc.violate(case, {'kind': kd, 'engine': engine, 'empty': second == 'empty', 'param_runaway': LAST_RUNAWAY, 'warm_history': True},
                            'structure %r, warm start, second call %s: %s' % (st, second, '; '.join(m for k, m in fails if k == kd)[:600]))
    # fixed-step mirror descent (L2 and L1 metric)
    for total, iters, opt in itertools.product([1.0, 37.5, None], [1, 3, 10], [('L2', 5.0), ('L2', 50.0), ('L1', 2.0), ('L1', 20.0)]):
        if si == 0:
            continue
        case = {'si': si, 'total': total, 'engine': 'MD', 'iters': iters, 'zero': False, 'kind': 'noisy', 'seed': job['seed'], 'opt': list(opt)}
        struct, fails = run_one(si, total, 'MD', iters, False, 'noisy', job['seed'], opt=opt)
        acc.case(dict(case, struct=struct), nontrivial=len(struct) >= 2)
        acc.outcome('MD-fixed-step:%s' % ('ok' if not fails else 'FAIL'))
        for kd in sorted({k for k, _ in fails}):
            acc.violate(dict(case, struct=[list(c) for c in struct]), {'kind': kd, 'engine': 'MD', 'empty': False, 'param_runaway': LAST_RUNAWAY, 'fixed_step': True},
                        'structure %r %s: %s' % (struct, case, '; '.join(m for k, m in fails if k == kd)[:600]))
    acc.sample(dict(case, struct=[list(c) for c in struct]))
    return acc


def replay(case):
    if 'warm-history' in case:
        from .. import core
        core.MAX_VIOL_PER_JOB = 10 ** 6
        acc = run_job({'si': case['si'], 'seed': case['seed']})
        vs = [v for v in acc.violations if v['case'].get('warm-history') == case['warm-history'] and v['case'].get('engine') == case['engine']]
        for v in vs:
            print(v['msg'])
        return vs
    struct, fails = run_one(case['si'], case['total'], case['engine'], case['iters'], case['zero'], case['kind'], case['seed'], opt=tuple(case['opt']) if case.get('opt') else None)
    for k, m in fails:
        print(k, m)
    return [{'key': {'kind': k, 'engine': case['engine']}, 'msg': m} for k, m in fails]
