"""C13 - estimation is history-free; returned models are immutable snapshots.

E3: BFS over all sequences (depth <= 3 / 4) of estimate calls from a six-letter alphabet
on ONE estimator object; differential oracle against a fresh estimator; snapshots of
caller inputs; warm-start convergence against the certified optimum."""
import copy
import itertools

import numpy as np

from ..core import Acc, digest
from .. import oracle as O
from .. import meas as M
from .. import structs as S

PROPERTY = 'C13'
LEVEL = 'model_checking'
DESIGN_REF = 'DESIGN.md section 5 / C13'
TECHNIQUE = ('breadth-first enumeration of all estimate-call histories up to the depth bound on one real estimator object; differential '
             'oracle (fresh estimator given only the last call), snapshot comparison of earlier models and caller inputs')
RULE = ('case = (estimator configuration, history of calls); alphabet: 6 (measurement list, total, solver, callback?) letters over (A,B,C); '
        'configurations: structural zeros off/on, and warm_start=True (immutability / input / total clauses only); all histories of length <= 3 (quick) / 4 (thorough); states = histories (engine state '
        'digests counted separately), transitions = estimate calls; non-trivial = history length >= 2; distinct = digest of the history. '
        'Warm start: every ordered pair of distinct measurement lists x 3 solvers. elim-hist: estimators given a caller-owned elimination order on (A,B,C,D), all histories of length 2..3 (quick) / 2..4 (thorough) over 5 measurement lists incl. the empty one and two 4-cycles.')
LEVEL_TEXT = ('All call sequences up to the depth bound are executed on a single long-lived estimator; after the last call the returned model '
              'must answer exactly like the model of a fresh estimator given that call alone, all models returned earlier must still give the '
              'answers recorded when they were returned, and the caller-owned inputs must be unchanged. This is explicit-state exploration of the '
              'estimator history space with a differential oracle.')
LEVEL_NOTE = '25 iterations per call; alphabet of 6 calls; depth 3/4; warm-start clause decided at 1500 iterations with tolerance 1e-2 of the uniform-to-optimum range.'
ASSUMPTIONS = ['eigsh start vector fixed by a harness seam so that RDA/IG are deterministic; comparison 1e-9 relative (bitwise for MD)']

LISTS = {
    'm1': [('A', 'B')],
    'm2': [('B', 'C'), ('A',)],
    'm3': [('C', 'A'), ('A', 'B'), ('B', 'C')],
    'm4': [('A', 'B'), ('C',)],
    'm1p': [('A', 'B')],    # the projection of m1 (also in m3, m4) measured with a prefix-sum query of the same shape
}
ALPHABET = [
    ('m1', 100.0, 'MD', False),
    ('m2', 50.0, 'RDA', True),
    ('m3', None, 'IG', False),
    ('m1p', None, 'RDA', False),
    ('m2', 100.0, 'MD', False),
    ('m3', 50.0, 'MD', True),
]
# solver options passed by some letters (a fresh dict per call); calls without options must not inherit them
OPTIONS = {4: {'stepsize': 2e-4}}
ZCONF = {'nozeros': {}, 'zeros': {('A', 'B'): [(0, 1)]}, 'warm': {}}
ITERS = 25


def bounds(tier):
    return {'alphabet': [list(map(str, a)) for a in ALPHABET], 'depth': 3 if tier == 'quick' else 4, 'iterations_per_call': ITERS,
            'configurations': list(ZCONF), 'warm_pairs': '12 ordered pairs x 3 solvers, 1500 iterations',
            'elim_order_histories': {'orders': [list(o) for o in ELIM_ORDERS], 'lists': list(ELIM_LISTS), 'lengths': '2..3' if tier == 'quick' else '2..4'}}


def jobs(tier, seed):
    out = []
    depth = 3 if tier == 'quick' else 4
    for zc in ZCONF:
        for a in range(len(ALPHABET)):
            for b in range(len(ALPHABET)):
                out.append({'mode': 'hist', 'zc': zc, 'prefix': [a, b], 'depth': depth, 'seed': seed})
        out.append({'mode': 'hist', 'zc': zc, 'prefix': [], 'depth': 1, 'seed': seed})
    for pi_, (l1, l2) in enumerate(itertools.permutations([l for l in LISTS if l != 'm1p'], 2)):
        out.append({'mode': 'warm', 'l1': l1, 'l2': l2, 'engine': ['MD', 'RDA', 'IG'][pi_ % 3], 'seed': seed, 'tmode': 'none'})
        for eng in ['MD', 'RDA', 'IG']:
            out.append({'mode': 'warm', 'l1': l1, 'l2': l2, 'engine': eng, 'seed': seed})
            if eng != 'RDA' or l1 == 'm3':
                out.append({'mode': 'warm-zeros', 'l1': l1, 'l2': l2, 'engine': eng, 'seed': seed})
    # estimators constructed with an explicit elimination order (a caller-owned list), 4 attributes, histories that leave attributes unmeasured
    for oi in range(len(ELIM_ORDERS)):
        for first in range(len(ELIM_LISTS)):
            out.append({'mode': 'elim-hist', 'order': oi, 'first': first, 'depth': 2 if tier == 'quick' else 3, 'seed': seed})
    # fixed, seed-independent witness of open finding F15 (mirror descent stalls after a warm start from a boundary optimum)
    out.append({'mode': 'warm-zeros', 'l1': 'm2', 'l2': 'm3', 'engine': 'MD', 'seed': 2, 'witness': 'F15'})
    # fixed witness of open finding F18 (same stall without structural zeros: first call with a supplied total far below the measured mass)
    out.append({'mode': 'warm', 'l1': 'm2', 'l2': 'm1', 'engine': 'MD', 'seed': 2, 'tmode': 'none', 'witness': 'F18'})
    return out


def problem(listname, seed):
    li = list(LISTS).index(listname)
    sig = [2.0, 1.0, 0.5] if listname == 'm2' else None
    return M.Problem(M.ATTRS3, M.SIZES3, LISTS[listname], li, 'pos', seed, total=70.0, noise_mult=1.0, sigmas=sig, kinds=['prefix'] if listname == 'm1p' else None)


def answers(model):
    out = {'total': np.array(float(model.total))}
    for t in list(S.ordered_subtuples(M.ATTRS3, maxlen=2)) + [tuple(M.ATTRS3)]:
        out['project%r' % (t,)] = np.array(model.project(t).values, dtype=float, copy=True)
    out['datavector'] = np.array(model.datavector(), dtype=float, copy=True)
    return out


def diff_answers(a, b, rtol):
    for k in a:
        x, y = a[k], b[k]
        if x.shape != y.shape:
            return '%s: shape %r vs %r' % (k, x.shape, y.shape)
        if rtol == 0:
            if not np.array_equal(x, y):
                return '%s: differs (max abs diff %.3g)' % (k, O.maxdiff(x, y))
        elif not np.all(np.abs(x - y) <= rtol * np.maximum(1.0, np.abs(y))):
            return '%s: differs by %.3g' % (k, O.maxdiff(x, y))
    return None


def snap_inputs(ms, zeros):
    out = []
    for Q, y, s, proj in ms:
        qd = None if Q is None else (Q.toarray() if hasattr(Q, 'toarray') else (np.array(Q) if isinstance(Q, np.ndarray) else Q @ np.eye(Q.shape[1])))
        out.append((None if qd is None else qd.copy(), np.array(y, copy=True), s, copy.deepcopy(proj), type(Q).__name__, type(proj).__name__))
    return out, copy.deepcopy(zeros)


def same_inputs(a, b):
    if len(a) != len(b):
        return False
    for (q1, y1, s1, p1, tq1, tp1), (q2, y2, s2, p2, tq2, tp2) in zip(a, b):
        if (q1 is None) != (q2 is None) or (q1 is not None and not np.array_equal(q1, q2)):
            return False
        if not np.array_equal(y1, y2) or s1 != s2 or p1 != p2 or tq1 != tq2 or tp1 != tp2:
            return False
    return True


class Counter:
    def __init__(self):
        self.n = 0

    def __call__(self, mu):
        self.n += 1


def call(eng, letter, seed, cb=None):
    listname, total, solver, use_cb = ALPHABET[letter]
    prob = problem(listname, seed)
    ms = prob.fresh_measurements()
    kw = {'options': dict(OPTIONS[letter])} if letter in OPTIONS else {}
    with M.quiet():
        if use_cb:
            model = eng.estimate(ms, total=total, engine=solver, callback=cb, **kw)
        else:
            model = eng.estimate(ms, total=total, engine=solver, **kw)
    return model, ms


_FRESH = {}


def fresh_answers(zc, letter, seed):
    from mbi import Domain, FactoredInference
    key = (zc, letter, seed)
    if key not in _FRESH:
        eng = FactoredInference(Domain(M.ATTRS3, M.SIZES3), iters=ITERS, structural_zeros=copy.deepcopy(ZCONF[zc]))
        model, _ = call(eng, letter, seed, Counter())
        _FRESH[key] = answers(model)
    return _FRESH[key]


def engine_digest(eng):
    parts = [repr(sorted(map(repr, eng.groups.keys()))), repr(eng.model.cliques), repr(float(eng.model.total))]
    for cl in eng.model.cliques:
        parts.append(np.round(np.nan_to_num(np.asarray(eng.model.potentials[cl].values, dtype=float), neginf=-1e300), 9).tobytes().hex())
    return digest(parts)


def run_history(zc, hist, seed, acc=None):
    from mbi import Domain, FactoredInference
    M.deterministic_eigsh()
    zeros = copy.deepcopy(ZCONF[zc])
    zeros_ref = copy.deepcopy(zeros)
    eng = FactoredInference(Domain(M.ATTRS3, M.SIZES3), iters=ITERS, structural_zeros=zeros, warm_start=(zc == 'warm'))
    fails = []
    returned = []
    cb = Counter()
    for step, letter in enumerate(hist):
        listname, total, solver, use_cb = ALPHABET[letter]
        prob = problem(listname, seed)
        ms = prob.fresh_measurements()
        before, _ = snap_inputs(ms, zeros)
        n_before = cb.n
        kw = {'options': dict(OPTIONS[letter])} if letter in OPTIONS else {}
        with M.quiet():
            if use_cb:
                model = eng.estimate(ms, total=total, engine=solver, callback=cb, **kw)
            else:
                model = eng.estimate(ms, total=total, engine=solver, **kw)
        after, _ = snap_inputs(ms, zeros)
        if not same_inputs(before, after):
            fails.append(('inputs-mutated', 'call %d (%s): the measurement list / arrays were modified by estimate' % (step + 1, ALPHABET[letter],)))
        if zeros != zeros_ref:
            fails.append(('inputs-mutated', 'call %d: the structural_zeros dict was modified' % (step + 1)))
        if not use_cb and cb.n != n_before:
            fails.append(('callback-leak', 'call %d passed no callback but the callback of an earlier call was invoked %d times' % (step + 1, cb.n - n_before)))
        if use_cb and cb.n == n_before:
            fails.append(('callback-unused', 'call %d passed a callback that was never invoked' % (step + 1)))
        # (e) a supplied total is honoured by every call of the history, warm start or not
        if total is not None:
            sums = [float(np.sum(model.project(t).values)) for t in [('A',), ('B', 'C'), tuple(M.ATTRS3)]]
            if model.total != total or any(abs(x - total) > 1e-9 * total for x in sums):
                fails.append(('total-not-honoured', 'call %d (%s) supplied total %r but model.total=%r and answers sum to %r' % (step + 1, ALPHABET[letter], total, model.total, sums)))
        returned.append((model, answers(model)))
        if acc is not None and step == len(hist) - 1:
            acc.digests_states.add(engine_digest(eng))
    # (a) history freedom for the last call (estimators configured WITHOUT warm start only)
    letter = hist[-1]
    ref = fresh_answers(zc, letter, seed) if zc != 'warm' else returned[-1][1]
    d = diff_answers(returned[-1][1], ref, 0 if ALPHABET[letter][2] == 'MD' else 1e-9)
    if d:
        fails.append(('history-dependence', 'after history %r the model of call %r differs from a fresh estimator: %s' % (hist[:-1], ALPHABET[letter], d)))
    # (b) earlier models are immutable snapshots
    for i, (model, rec) in enumerate(returned[:-1]):
        d = diff_answers(answers(model), rec, 0)
        if d:
            fails.append(('stale-model-changed', 'model returned by call %d changed its answers after later calls: %s' % (i + 1, d)))
        if model is returned[-1][0]:
            fails.append(('stale-model-changed', 'call %d and call %d returned the same object' % (i + 1, len(hist))))
    return fails


ELIM_ORDERS = [['A', 'B', 'C', 'D'], ['D', 'B', 'A', 'C'], ('C', 'A', 'D', 'B')]
ELIM_LISTS = {'empty': [], 'one': [('A',)], 'cycle': [('A', 'B'), ('B', 'C'), ('C', 'D'), ('D', 'A')], 'path': [('B', 'C'), ('C', 'D')], 'cycle-rev': [('D', 'C'), ('C', 'B'), ('B', 'A'), ('A', 'D')]}


def run_elim_history(oi, hist, seed):
    """hist: names of ELIM_LISTS; one estimator given a caller-owned elimination order; the last call is compared with a fresh estimator
    given an equal order; the caller's order object must still say what it said"""
    from mbi import Domain, FactoredInference
    M.deterministic_eigsh()
    names = list(ELIM_LISTS)

    def one(eng, name, step):
        prob = M.Problem(M.ATTRS4, M.SIZES4, ELIM_LISTS[name], names.index(name), 'pos', seed, total=70.0, noise_mult=1.0)
        with M.quiet():
            return eng.estimate(prob.fresh_measurements(), total=70.0, engine=['MD', 'RDA', 'IG'][(step + oi) % 3])
    order = copy.deepcopy(ELIM_ORDERS[oi])
    eng = FactoredInference(Domain(M.ATTRS4, M.SIZES4), iters=15, elim_order=order)
    fails = []
    for step, name in enumerate(hist):
        model = one(eng, name, step)
    if order != ELIM_ORDERS[oi] or type(order) is not type(ELIM_ORDERS[oi]):
        fails.append(('inputs-mutated', 'the elimination order passed to the constructor now reads %r (was %r)' % (order, ELIM_ORDERS[oi])))
    ref = one(FactoredInference(Domain(M.ATTRS4, M.SIZES4), iters=15, elim_order=copy.deepcopy(ELIM_ORDERS[oi])), hist[-1], len(hist) - 1)
    ts = [t for r in (1, 2) for t in itertools.permutations(M.ATTRS4, r)] + [tuple(M.ATTRS4)]
    worst = 0.0
    for t in ts:
        a, b = np.asarray(model.project(t).values, dtype=float), np.asarray(ref.project(t).values, dtype=float)
        worst = max(worst, float(np.abs(a - b).max()))
    if not worst <= 1e-9 * 70.0:
        fails.append(('history-dependence', 'elim_order=%r: after history %r the model of the last call %r differs from a fresh estimator by %.3g (total 70)' % (ELIM_ORDERS[oi], hist[:-1], hist[-1], worst)))
    return fails


def run_warm_zeros(l1, l2, engine, seed):
    """warm start with structural zeros: the second call must keep the declared cells empty and fit no worse than a cold start"""
    from mbi import Domain, FactoredInference
    M.deterministic_eigsh()
    zeros = {('A', 'B'): [(0, 1), (1, 2)], ('C',): [(1,)]}
    p1, p2 = problem(l1, seed), problem(l2, seed + 1)
    out = {}
    for mode in ('warm', 'cold'):
        eng = FactoredInference(Domain(M.ATTRS3, M.SIZES3), iters=200, warm_start=(mode == 'warm'), structural_zeros={k: list(v) for k, v in zeros.items()})
        with M.quiet():
            if mode == 'warm':
                eng.estimate(p1.fresh_measurements(), total=70.0, engine=engine)
            eng.iters = 800
            out[mode] = eng.estimate(p2.fresh_measurements(), total=70.0, engine=engine)
    fails = []
    pw = np.asarray(out['warm'].datavector(flatten=False), dtype=float)
    pc = np.asarray(out['cold'].datavector(flatten=False), dtype=float)
    for key, cells in zeros.items():
        m = O.marginal(pw, M.ATTRS3, key)
        for c in cells:
            if not m[tuple(c)] <= 1e-12 * 70.0:
                fails.append(('warm-zeros-lost', 'warm start %s -> %s with %s: mass %.4g on the structurally impossible cell %s=%r (cold start: %.3g)' % (
                    l1, l2, engine, m[tuple(c)], key, tuple(c), O.marginal(pc, M.ATTRS3, key)[tuple(c)])))
    fw, fc = p2.f(pw.flatten()), p2.f(pc.flatten())
    fu = p2.f(p2.uniform(70.0))
    if not fails and fw > fc + 2e-2 * abs(fu - fc) + 1e-6 * max(1.0, fc):
        fails.append(('warm-not-optimal', 'warm start %s -> %s with %s and structural zeros: loss %.8g, cold start reaches %.8g' % (l1, l2, engine, fw, fc)))
    return fails, 0.0


def run_warm(l1, l2, engine, seed, tmode='given'):
    from mbi import Domain, FactoredInference
    M.deterministic_eigsh()
    eng = FactoredInference(Domain(M.ATTRS3, M.SIZES3), iters=300, warm_start=True)
    p1, p2 = problem(l1, seed), problem(l2, seed + 1)
    with M.quiet():
        if tmode == 'given':
            eng.estimate(p1.fresh_measurements(), total=70.0, engine=engine)
            eng.iters = 1500
            model = eng.estimate(p2.fresh_measurements(), total=70.0, engine=engine)
            T = 70.0
        else:
            # first call with a supplied total of 25, second call leaves the total to be estimated from the second list (about 70)
            eng.estimate(p1.fresh_measurements(), total=25.0, engine=engine)
            eng.iters = 1500
            model = eng.estimate(p2.fresh_measurements(), total=None, engine=engine)
            cold = FactoredInference(Domain(M.ATTRS3, M.SIZES3), iters=1)
            T = float(cold.estimate(p2.fresh_measurements(), total=None, engine=engine).total)
            if abs(float(model.total) - T) > 1e-9 * T:
                return [('warm-total', 'warm start %s -> %s with %s, total omitted on the second call: model.total %.10g, a cold start estimates %.10g' % (
                    l1, l2, engine, float(model.total), T))], 0.0
    p = np.asarray(model.datavector(), dtype=float)
    pref, fref, gap = p2.reference(T)
    fu = p2.f(p2.uniform(T))
    fp = p2.f(p)
    rng_ = max(fu - fref, 1e-12)
    fails = []
    if not (np.all(np.isfinite(p)) and abs(p.sum() - T) <= 1e-9 * T):
        fails.append(('warm-table', 'warm-started model is not a table with the total'))
    elif fp - fref > 1e-2 * rng_ + 1e-9:
        fails.append(('warm-not-optimal', 'warm start %s -> %s with %s: loss %.8g vs certified optimum of the second list %.8g (excess %.3g of range %.4g)' % (
            l1, l2, engine, fp, fref, (fp - fref) / rng_, rng_)))
    return fails, (fp - fref) / rng_


def run_job(job):
    acc = Acc()
    if job['mode'] == 'elim-hist':
        names = list(ELIM_LISTS)
        acc.states += 1
        # every history of length 2 .. depth+1 that starts with the job's first list (a state is the history that reaches it)
        for L in range(1, job['depth'] + 1):
            for tail in itertools.product(names, repeat=L):
                h = [names[job['first']]] + list(tail)
                case = {'mode': 'elim-hist', 'order': job['order'], 'hist': h, 'seed': job['seed']}
                acc.case(case)
                acc.states += 1
                acc.transitions += len(h)
                acc.traces += 1
                fails = run_elim_history(job['order'], h, job['seed'])
                acc.outcome('elim-hist:%s' % ('ok' if not fails else 'FAIL'))
                for kd in sorted({k for k, _ in fails}):
                    acc.violate(case, {'kind': kd, 'mode': 'elim-hist'}, '; '.join(m for k, m in fails if k == kd)[:700])
        acc.sample(case)
        return acc
    acc.digests_states = set()
    if job['mode'] in ('warm', 'warm-zeros'):
        case = dict(job)
        if job['mode'] == 'warm':
            fails, ratio = run_warm(job['l1'], job['l2'], job['engine'], job['seed'], job.get('tmode', 'given'))
        else:
            fails, ratio = run_warm_zeros(job['l1'], job['l2'], job['engine'], job['seed'])
        acc.case(case)
        acc.states += 2
        acc.transitions += 2
        acc.traces += 1
        acc.maximum('warm_excess_over_range:' + job['engine'], ratio, case)
        acc.outcome('warm:%s' % ('ok' if not fails else 'FAIL'))
        for k, m in fails:
            acc.violate(case, {'kind': k, 'engine': job['engine'], 'zeros': job['mode'] == 'warm-zeros', 'tmode': job.get('tmode', 'given')}, m)
        acc.sample(case)
        return acc
    n = len(ALPHABET)
    hists = []
    if not job['prefix']:
        hists = [[a] for a in range(n)]
    else:
        hists.append(list(job['prefix']))
        for extra in range(1, job['depth'] - len(job['prefix']) + 1):
            for tail in itertools.product(range(n), repeat=extra):
                hists.append(list(job['prefix']) + list(tail))
    for hist in hists:
        case = {'zc': job['zc'], 'hist': hist, 'seed': job['seed']}
        acc.case(case, nontrivial=len(hist) >= 2)
        acc.states += 1
        acc.transitions += len(hist)
        acc.traces += 1
        fails = run_history(job['zc'], hist, job['seed'], acc)
        acc.outcome('len%d:%s' % (len(hist), 'ok' if not fails else 'FAIL'))
        for kd in sorted({k for k, _ in fails}):
            acc.violate(case, {'kind': kd, 'last': ALPHABET[hist[-1]][2]}, 'config %s history %r: %s' % (job['zc'], [ALPHABET[h] for h in hist], '; '.join(m for k, m in fails if k == kd)[:700]))
    acc.counters['distinct_engine_states'] = len(acc.digests_states)
    acc.sample({'config': job['zc'], 'history': [list(map(str, ALPHABET[h])) for h in hists[-1]]})
    return acc


def replay(case):
    if case.get('mode') in ('warm', 'warm-zeros'):
        if case['mode'] == 'warm':
            fails, _ = run_warm(case['l1'], case['l2'], case['engine'], case['seed'], case.get('tmode', 'given'))
        else:
            fails, _ = run_warm_zeros(case['l1'], case['l2'], case['engine'], case['seed'])
    elif case.get('mode') == 'elim-hist':
        fails = run_elim_history(case['order'], case['hist'], case['seed'])
    else:
        fails = run_history(case['zc'], case['hist'], case['seed'])
    for k, m in fails:
        print(k, m)
    return [{'key': {'kind': k}, 'msg': m} for k, m in fails]
