"""C12 - every constructed junction tree is valid, with a valid message schedule.

Explorer E1: every labelled graph on <= 5 attributes (6 up to isomorphism in
thorough) x clique-list presentations x every elimination order (all
permutations, None, int).  Oracle: plain set/graph predicates plus an
independent elimination-based triangulation replayed step by step."""
import itertools

import numpy as np

from ..core import Acc
from .. import structs as S

PROPERTY = 'C12'
LEVEL = 'model_checking'
DESIGN_REF = 'DESIGN.md section 5 / C12'
RULE = ('all labelled graphs on <=k attributes x 6 clique-list presentations x all elimination orders '
        '(every permutation, None, int); a case is (graph, presentation, sizes, order); non-trivial = the graph has '
        '>= 1 edge; distinct = digest of (clique list, order). states = (clique list, order) pairs explored, '
        'transitions = elimination steps replayed by the independent triangulation.')
TECHNIQUE = 'explicit-state exhaustive enumeration of (graph, presentation, elimination order) on the real JunctionTree; independent triangulation replayed per state'
LEVEL_TEXT = ('Every labelled graph on <=4 (quick) / <=5 (thorough, plus all 156 six-vertex graphs up to isomorphism and a few '
              'larger families) attributes, in six clique-list presentations, under every elimination order and the None/int '
              'modes, is pushed through the real JunctionTree and all clauses of the property are evaluated on each result. '
              'This is a complete small-scope enumeration, which is what the property quantifier itself names.')
LEVEL_NOTE = ('Small-scope hypothesis beyond 5-6 attributes; set-iteration order is covered for 4 hash seeds only; the int '
              '(randomised) mode is run with a seeded numpy generator but every order it can produce is also enumerated explicitly.')
ASSUMPTIONS = ['networkx is trusted only inside the code under test; the oracle uses its own union-find / set logic',
               'four size patterns (generic; first attribute of size 1; last attribute of size 1; attribute sizes in the thousands) because sizes steer the greedy order and the tie-breaking of the spanning tree']


def hashseeds(tier):
    return [0] if tier == 'quick' else [0, 1, 2, 3]


def bounds(tier):
    if tier == 'quick':
        return {'attributes_full': 4, 'attributes_5': 'None, int, 10 cyclic-shift/reversal orders', 'presentations': 6}
    return {'attributes_full': 5, 'attributes_6': 'all 156 isomorphism classes x 720 orders (presentation edges/maximal)',
            'larger': 'cycles C7,C8, 3x3 grid, wheel W6, K33, two glued 4-cliques: None/int/cyclic-shift orders',
            'presentations': 6, 'hashseeds': 4}


def jobs(tier, seed):
    out = []
    kmax = 4 if tier == 'quick' else 5
    for k in range(1, kmax + 1):
        npairs = k * (k - 1) // 2
        masks = list(range(1 << npairs))
        chunk = 16 if k >= 5 else 64
        for i in range(0, len(masks), chunk):
            out.append({'k': k, 'masks': masks[i:i + chunk], 'orders': 'all', 'seed': seed})
    if tier == 'quick':
        masks = list(range(1 << 10))
        for i in range(0, len(masks), 64):
            out.append({'k': 5, 'masks': masks[i:i + 64], 'orders': 'some', 'seed': seed})
    else:
        reps = S.iso_classes(6)
        for i in range(0, len(reps), 4):
            out.append({'k': 6, 'edges': reps[i:i + 4], 'orders': 'all', 'pres': ['edges', 'maximal'], 'seed': seed})
        out.append({'k': 'large', 'seed': seed})
    return out


def orders_for(attrs, mode):
    yield None
    yield 2
    if mode == 'all':
        for p in itertools.permutations(attrs):
            yield list(p)
    else:
        n = len(attrs)
        for s in range(n):
            yield attrs[s:] + attrs[:s]
            yield list(reversed(attrs[s:] + attrs[:s]))


def large_families():
    A = S.ATTRS
    fams = {}
    fams['C7'] = (7, [(A[i], A[(i + 1) % 7]) for i in range(7)])
    fams['C8'] = (8, [(A[i], A[(i + 1) % 8]) for i in range(8)])
    fams['grid3x3'] = (9, [(A[3 * r + c], A[3 * r + c + 1]) for r in range(3) for c in range(2)] +
                       [(A[3 * r + c], A[3 * (r + 1) + c]) for r in range(2) for c in range(3)])
    fams['wheel6'] = (7, [(A[0], A[i]) for i in range(1, 7)] + [(A[i], A[i % 6 + 1]) for i in range(1, 7)])
    fams['K33'] = (6, [(A[i], A[j]) for i in range(3) for j in range(3, 6)])
    fams['glued4cliques'] = (6, [(A[0], A[1], A[2], A[3]), (A[2], A[3], A[4], A[5])])
    fams['hyper-ring'] = (6, [(A[0], A[1], A[2]), (A[2], A[3], A[4]), (A[4], A[5], A[0])])
    return fams


def check_tree(acc, case, attrs, sizes, cliques, order, seed, form=None):
    """construct the junction tree for one case and evaluate the oracle"""
    from mbi import Domain
    from mbi.junction_tree import JunctionTree
    dom = Domain(attrs, sizes)
    if isinstance(order, int):
        np.random.seed(seed + 12)
    given = order
    if form == 'iter' and isinstance(order, list):
        given = iter(order)         # a one-shot iterator instead of a list
    elif form == 'tuple' and isinstance(order, list):
        given = tuple(order)
    jt = JunctionTree(dom, [tuple(c) for c in cliques], elimination_order=given)
    acc.states += 1
    nodes = jt.maximal_cliques()
    bad = []
    nodesets = [frozenset(n) for n in nodes]
    tnodes = list(jt.tree.nodes())
    tedges = [(a, b) for a, b in jt.tree.edges()]
    # 1. tree
    if set(map(frozenset, tnodes)) != set(nodesets) or len(tnodes) != len(nodes) or len(set(nodes)) != len(nodes):
        bad.append('maximal_cliques() %r is not the node set of the tree %r' % (nodes, tnodes))
    parent = {n: n for n in tnodes}

    def find(x):
        while parent[x] != x:
            parent[x] = parent[parent[x]]
            x = parent[x]
        return x
    acyclic = True
    for a, b in tedges:
        ra, rb = find(a), find(b)
        if ra == rb:
            acyclic = False
        parent[ra] = rb
    if not acyclic or len(tedges) != len(tnodes) - 1 or len({find(n) for n in tnodes}) != 1:
        bad.append('tree is not a tree: %d nodes %d edges acyclic=%s' % (len(tnodes), len(tedges), acyclic))
    # 2. cover
    for cl in cliques:
        if not any(set(cl) <= n for n in nodesets):
            bad.append('input clique %r not contained in any node' % (cl,))
    # 3. attributes
    for a in attrs:
        if not any(a in n for n in nodesets):
            bad.append('attribute %s appears in no node' % a)
    for n in nodes:
        if len(set(n)) != len(n) or not set(n) <= set(attrs):
            bad.append('node %r has repeated/unknown attributes' % (n,))
    # 4. antichain
    for i, n in enumerate(nodesets):
        for j, m in enumerate(nodesets):
            if i != j and n <= m:
                bad.append('node %r is contained in node %r' % (sorted(n), sorted(m)))
    # 5. running intersection
    adj = {n: set() for n in tnodes}
    for a, b in tedges:
        adj[a].add(b)
        adj[b].add(a)
    for a in attrs:
        holders = [n for n in tnodes if a in n]
        if holders:
            seen = {holders[0]}
            stack = [holders[0]]
            while stack:
                x = stack.pop()
                for y in adj[x]:
                    if a in y and y not in seen:
                        seen.add(y)
                        stack.append(y)
            if len(seen) != len(holders):
                bad.append('nodes containing %s are not connected in the tree' % a)
    # 6. schedule
    mp = jt.mp_order()
    want = set(tedges) | {(b, a) for a, b in tedges}
    if len(mp) != len(want) or set(mp) != want:
        bad.append('schedule %r does not list each direction of each edge exactly once' % (mp,))
    else:
        pos = {m: i for i, m in enumerate(mp)}
        for (i, j) in mp:
            for k in adj[i]:
                if k != j and pos[(k, i)] > pos[(i, j)]:
                    bad.append('message %r->%r sent before its dependency %r->%r' % (i, j, k, i))
    # 7. separators
    sep = jt.separator_axes()
    if set(sep.keys()) != want:
        bad.append('separator_axes keys differ from the message set')
    else:
        for (i, j), ax in sep.items():
            if len(set(ax)) != len(ax) or set(ax) != set(i) & set(j):
                bad.append('separator of %r,%r is %r' % (i, j, ax))
    # 8. neighbours
    nb = jt.neighbors()
    if set(nb.keys()) != set(tnodes) or any(set(nb[n]) != adj[n] for n in tnodes if n in nb):
        bad.append('neighbors() differs from tree adjacency')
    # 9. independent triangulation along the order the implementation reports
    eo = list(order) if (form == 'iter' and isinstance(order, list)) else list(jt.elimination_order)   # an iterator is exhausted by construction
    if sorted(eo) != sorted(attrs):
        bad.append('elimination order %r is not a permutation of the attributes' % (eo,))
    else:
        if order is not None and not isinstance(order, int) and eo != list(order):
            bad.append('given elimination order %r was replaced by %r' % (order, eo))
        ref, steps = S.eliminate(attrs, cliques, eo)
        acc.transitions += steps
        if ref != set(nodesets):
            bad.append('nodes %r differ from the maximal cliques of the elimination triangulation %r' % (
                sorted(map(sorted, nodesets)), sorted(map(sorted, ref))))
    acc.outcome('nodes=%d' % len(nodes))
    if bad:
        acc.violate(case, {'kind': 'invalid-junction-tree', 'what': bad[0].split(' ')[0]}, '; '.join(bad[:4]))
    return not bad


def run_case(acc, k, edges, pres, sizes_name, order, seed, naming='letters', form=None):
    attrs = S.ATTRS[:k]
    sizes = S.sizes_for(sizes_name, k)
    cliques = S.present(attrs, edges, pres)
    case = {'k': k, 'edges': edges, 'pres': pres, 'sizes': sizes_name, 'order': order, 'seed': seed, 'naming': naming, 'form': form}
    acc.case({'c': cliques, 'o': order, 's': sizes_name, 'n': naming, 'f': form}, nontrivial=len(edges) > 0)
    acc.traces += 1
    check_tree(acc, case, S.rename(attrs, naming), sizes, S.rename(cliques, naming), S.rename(order, naming), seed, form)


def run_job(job):
    acc = Acc()
    seed = job['seed']
    if job['k'] == 'large':
        for name, (n, cl) in large_families().items():
            attrs = S.ATTRS[:n]
            for order in orders_for(attrs, 'some'):
                case = {'large': name, 'order': order, 'seed': seed}
                acc.case(case)
                acc.traces += 1
                check_tree(acc, case, attrs, S.SIZES_MAIN[:n], cl, order, seed)
        acc.sample({'large': 'grid3x3', 'order': None})
        return acc
    k = job['k']
    attrs = S.ATTRS[:k]
    graphs = job['edges'] if 'edges' in job else [S.graph_by_mask(k, m) for m in job['masks']]
    press = job.get('pres', S.PRESENTATIONS)
    for edges in graphs:
        edges = [tuple(e) for e in edges]
        for pres in press:
            if pres != 'edges' and not edges and pres != 'singletons' and pres != 'nested':
                continue
            for si, sizes_name in enumerate(['main', 'one', 'last1', 'huge']):
                if sizes_name != 'main' and (pres not in ('edges', 'maximal') or k >= 6):
                    continue
                if sizes_name == 'huge' and (k < 3 or pres != 'maximal'):
                    continue
                for order in orders_for(attrs, job['orders']):
                    run_case(acc, k, edges, pres, sizes_name, order, seed)
                    if sizes_name == 'main' and pres == 'edges' and isinstance(order, list) and k >= 3:
                        # the same order given as a one-shot iterator / as a tuple
                        run_case(acc, k, edges, pres, sizes_name, order, seed, form=('iter' if S.ATTRS.index(order[0]) % 2 == 0 else 'tuple'))
                    if sizes_name == 'main' and pres in ('edges', 'maximal') and k <= 5:
                        run_case(acc, k, edges, pres, sizes_name, order, seed, naming='scrambled')
        acc.sample({'k': k, 'edges': edges, 'pres': 'maximal', 'cliques': S.present(attrs, edges, 'maximal'), 'order': attrs[::-1]})
    return acc


def replay(case):
    acc = Acc()
    if 'large' in case:
        n, cl = large_families()[case['large']]
        check_tree(acc, case, S.ATTRS[:n], S.SIZES_MAIN[:n], cl, case['order'], case['seed'])
    else:
        run_case(acc, case['k'], [tuple(e) for e in case['edges']], case['pres'], case['sizes'], case['order'], case['seed'], case.get('naming', 'letters'), case.get('form'))
    for v in acc.violations:
        print(v['msg'])
    return acc.violations
