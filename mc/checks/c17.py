"""C17 - the convex region-graph oracle solves its variational problem.

E1: clique families (all antichains and singly-nested families over 3 attributes, named
4-attribute structures) x potential classes x totals x damping x minimal; oracle: KKT
certificate of the strictly concave programme with ALL nested region pairs as constraints."""
import itertools
import zlib

import numpy as np

from ..core import Acc
from .. import structs as S
from .. import meas as M

PROPERTY = 'C17'
LEVEL = 'exploration'
DESIGN_REF = 'DESIGN.md section 5 / C17'
TECHNIQUE = ('exhaustive enumeration of small clique families x damping x potential classes on the real hazan_peng_shashua oracle; KKT certificate '
             '(primal residual over all nested region pairs, dual residual by dense least squares) of the strictly concave programme')
RULE = ('case = (family, presentation, potential class, total, damping, minimal); families: all antichains and all families with exactly one nested '
        'pair over (A,B,C), plus chain, star, 4-loop, two overlapping triples and the four triples over (A,B,C,D); potential classes: generic on every '
        'region / zero on derived regions / x5; schedules: one call, 1500 single-sweep calls, same potentials object updated in place between converged calls; non-trivial = >= 2 regions; distinct = digest of the case.')
LEVEL_TEXT = ('Every family of the alphabet is run to convergence and the returned pseudo-marginals are certified optimal by the KKT conditions of the '
              'convexified free energy: agreement on every shared sub-region (all nested pairs, beyond the edges the implementation keeps) and '
              'stationarity of theta - log q - 1 in the row space of the constraints. Strict concavity makes the certificate equivalent to being '
              'the unique maximiser, so no second solver is needed.')
LEVEL_NOTE = '"Run to convergence" is decided at iters=5000, convergence=1e-10; thresholds 1e-7 (calibrated residuals on the unchanged tree: 3e-11 / 5e-14).'
ASSUMPTIONS = ['numpy.linalg.lstsq trusted', 'the same attribute set written twice in different orders is outside the alphabet']

SIZES = [2, 3, 2, 2, 2]
EXTRA4 = {
    'chain4': [('A', 'B'), ('B', 'C'), ('C', 'D')],
    'star4': [('A', 'B'), ('A', 'C'), ('A', 'D')],
    'loop4': [('A', 'B'), ('B', 'C'), ('C', 'D'), ('A', 'D')],
    'two-triples': [('A', 'B', 'C'), ('B', 'C', 'D')],
    'loop3-reversed': [('B', 'A'), ('C', 'B'), ('A', 'C')],
    'four-triples': [('A', 'B', 'C'), ('A', 'B', 'D'), ('A', 'C', 'D'), ('B', 'C', 'D')],
    # three region levels: a region that both receives from a parent and sends to a child
    'nested-chain': [('A', 'B', 'C'), ('A', 'B'), ('A',)],
    'triples-single': [('A', 'B', 'C'), ('B', 'C', 'D'), ('C',)],
    'triples-pair-single': [('A', 'B', 'C'), ('B', 'C', 'D'), ('C', 'D'), ('D',)],
    'window3': [('A', 'B', 'C'), ('B', 'C', 'D'), ('A', 'C', 'D')],
    # a region (A) with two parents that each have a strict super-region but share none: the pruning of
    # region-graph edges (minimal=True) must keep both
    'two-nested-branches': [('A', 'B'), ('A', 'B', 'C'), ('A', 'D'), ('A', 'D', 'E')],
    'two-nested-branches-4': [('A', 'B'), ('A', 'B', 'C'), ('A', 'D'), ('A', 'C', 'D')],
    'three-branches': [('A', 'B'), ('A', 'B', 'C'), ('A', 'D'), ('A', 'D', 'E'), ('A', 'E')],
    # cliques sharing the pair AB but listing it in different relative orders
    'mixed-orders': [('A', 'B', 'C'), ('A', 'B', 'D'), ('B', 'A', 'E'), ('B', 'A', 'C', 'D')],
    'mixed-orders-4': [('A', 'B', 'C'), ('B', 'A', 'D'), ('C', 'D')],
}


def families3():
    attrs = S.ATTRS[:3]
    sub = [s for r in (1, 2, 3) for s in itertools.combinations(attrs, r)]
    out = []
    for k in range(1, 5):
        for fam in itertools.combinations(sub, k):
            nested = sum(1 for a, b in itertools.combinations(fam, 2) if set(a) < set(b) or set(b) < set(a))
            if nested <= 1:
                out.append(fam)
    return out


def bounds(tier):
    return {'families3': len(families3()), 'extra4': list(EXTRA4) if tier == 'thorough' else [k for k in EXTRA4 if k != 'four-triples'],
            'damping': [0.2, 0.5, 0.8], 'iters': 5000, 'convergence': 1e-10}


def jobs(tier, seed):
    out = []
    f3 = families3()
    for i, fam in enumerate(f3):
        if tier == 'quick':
            cfgs = [(d, m, 'all', 10.0) for d in (0.2, 0.5, 0.8) for m in (True, False)] + [(0.5, i % 2 == 0, 'input', 1.0 if i % 4 < 2 else 0.25), (0.5, i % 2 == 1, 'x5', 10.0), (0.5, i % 2 == 0, 'comp', 10.0), (0.2, i % 2 == 1, 'comp', 0.25)]
        else:
            cfgs = [(d, m, pc, T) for d in (0.2, 0.5, 0.8) for m in (True, False) for pc, T in (('all', 10.0), ('input', 1.0), ('x5', 10.0), ('input', 0.25), ('comp', 10.0))]
        out.append({'k': 3, 'fam': [list(c) for c in fam], 'present': 'sorted' if i % 2 == 0 else 'reversed', 'cfgs': cfgs, 'seed': seed})
        if len(fam) >= 2 and any(len(c) >= 2 for c in fam):
            out.append({'k': 3, 'fam': [list(c) for c in fam], 'present': 'alternating', 'cfgs': [(0.5, i % 2 == 0, 'all', 10.0)], 'seed': seed, 'late_total': i % 3 == 0})
    # schedules of single-sweep calls and structural zeros in shared derived regions
    for name in ('four-triples', 'window3', 'two-triples', 'loop4', 'triples-pair-single'):
        fam = EXTRA4[name]
        out.append({'k': 4, 'fam': [list(c) for c in fam], 'present': 'asis', 'cfgs': [(0.5, name != 'loop4', 'all', 10.0)], 'seed': seed, 'schedule': 'one-sweep-calls'})
    # call histories on one engine with ONE potentials object: solved to convergence, the tables updated in place, solved again
    # (also: the same object passed again unchanged, and a new object after that)
    for i, fam in enumerate(f3):
        if len(fam) >= 2 and (tier == 'thorough' or i % 3 == 0):
            out.append({'k': 3, 'fam': [list(c) for c in fam], 'present': 'sorted', 'cfgs': [(0.5, i % 2 == 0, 'all', 10.0)], 'seed': seed, 'schedule': 'same-object-updated'})
    for name in ('window3', 'loop4'):
        out.append({'k': 4, 'fam': [list(c) for c in EXTRA4[name]], 'present': 'asis', 'cfgs': [(0.5, True, 'all', 10.0)], 'seed': seed, 'schedule': 'same-object-updated'})
    for fam in ([('A', 'B', 'C'), ('A', 'B', 'D')], [('A', 'B', 'C'), ('B', 'C', 'D'), ('C', 'D', 'A')], [('A', 'B'), ('B', 'C'), ('C', 'A')]):
        for d_ in (0.5, 0.2):
            out.append({'k': 4, 'fam': [list(c) for c in fam], 'present': 'asis', 'cfgs': [(d_, d_ == 0.5, 'zero-child', 10.0)], 'seed': seed})
    for name, fam in EXTRA4.items():
        if name == 'four-triples' and tier == 'quick':
            continue
        cfgs = [(0.5, True, 'all', 10.0), (0.2, False, 'all', 10.0)] if tier == 'quick' else [(d, m, 'all', 10.0) for d in (0.2, 0.5, 0.8) for m in (True, False)]
        k = 5 if any('E' in c for c in fam) else 4
        for ci, cfg in enumerate(cfgs):
            out.append({'k': k, 'fam': [list(c) for c in fam], 'present': 'asis', 'cfgs': [cfg], 'seed': seed, 'late_total': ci % 2 == 1})
    return out


def constraint_matrix(dom, regs):
    off = {}
    n = 0
    for r in regs:
        off[r] = n
        n += dom.size(r)
    rows = []
    rhs = []
    for r in regs:
        a = np.zeros(n)
        a[off[r]:off[r] + dom.size(r)] = 1
        rows.append(a)
        rhs.append(1.0)
    for p in regs:
        for c in regs:
            if set(c) < set(p):
                for ci, cidx in enumerate(itertools.product(*[range(dom[a]) for a in c])):
                    a = np.zeros(n)
                    for pi, pidx in enumerate(itertools.product(*[range(dom[x]) for x in p])):
                        if all(pidx[p.index(x)] == cidx[c.index(x)] for x in c):
                            a[off[p] + pi] = 1
                    a[off[c] + ci] -= 1
                    rows.append(a)
                    rhs.append(0.0)
    return np.array(rows), np.array(rhs)


def run_cfg(job, cfg):
    from mbi import Domain, Factor, CliqueVector, RegionGraph
    damping, minimal, pclass, T = cfg
    k = job['k']
    dom = Domain(S.ATTRS[:k], SIZES[:k])
    fam = [tuple(c) for c in job['fam']]
    if job['present'] == 'reversed':
        fam = [tuple(reversed(c)) for c in fam]
    elif job['present'] == 'alternating':   # cliques disagree on the relative order of the attributes they share
        fam = [tuple(reversed(c)) if i % 2 == 1 else c for i, c in enumerate(fam)]
    rng = np.random.RandomState(zlib.crc32(repr((job['seed'], fam, pclass)).encode()) % 2 ** 31)
    if job.get('late_total'):
        # the total is a public attribute; LocalInference assigns it on a ready-made oracle after construction
        rg = RegionGraph(dom, list(fam), total=1.0, minimal=minimal, convex=True, iters=5000, convergence=1e-10, damping=damping)
        rg.total = T
    else:
        rg = RegionGraph(dom, list(fam), total=T, minimal=minimal, convex=True, iters=5000, convergence=1e-10, damping=damping)
    regs = list(rg.cliques)
    scale = 5.0 if pclass == 'x5' else 1.0
    pots = CliqueVector({r: Factor(dom.project(r), scale * rng.randn(*dom.project(r).shape) if (pclass != 'input' or r in fam) else np.zeros(dom.project(r).shape))
                         for r in regs})
    if pclass == 'comp':
        # +1500 g(a) on one region and -1500 g(a) on another region sharing attribute a: the objective is unchanged on the consistent set
        # (so the optimum is the one of the plain potentials), but every message across that attribute has slices 1500 nats apart
        lst = S.compensate(S.ATTRS[:k], SIZES[:k], [(r, np.asarray(pots[r].values, dtype=float)) for r in regs])
        pots = CliqueVector({r: Factor(dom.project(r), a) for r, a in lst})
    zero_cell = None
    if pclass == 'zero-child':
        # a structural zero (-inf) in a derived region that has two or more parents
        cand = [r for r in regs if len(rg.parents.get(r, [])) >= 2 and dom.size(r) >= 2]
        if cand:
            zero_cell = (cand[0], tuple([0] * len(cand[0])))
            pots[zero_cell[0]].values[zero_cell[1]] = -np.inf
    if job.get('schedule') == 'same-object-updated':
        final = {r: np.array(pots[r].values, copy=True) for r in regs}
        for r in regs:
            pots[r].values[...] = rng.randn(*dom.project(r).shape)
        rg.belief_propagation(pots)          # converged call on other contents
        rg.belief_propagation(pots)          # the same object again, unchanged
        for r in regs:
            pots[r].values[...] = final[r]   # caller updates its tables in place (as an optimiser's += step does)
    snap_ = {r: np.array(pots[r].values, copy=True) for r in regs}
    if job.get('schedule') == 'one-sweep-calls':
        # the engine is driven to convergence by many calls of a single sweep each (LocalInference's default schedule)
        rg.iters = 1
        for _ in range(1500):
            mu = rg.belief_propagation(pots)
    else:
        mu = rg.belief_propagation(pots)
    fails = []
    if any(not np.array_equal(snap_[r], np.asarray(pots[r].values)) for r in regs):
        fails.append(('potentials-mutated', 'the oracle overwrote the potentials it was given'))
        pots = CliqueVector({r: Factor(dom.project(r), snap_[r]) for r in regs})
    for r in regs:
        v = np.asarray(mu[r].values, dtype=float)
        if tuple(mu[r].domain.attrs) != tuple(r) or not np.all(np.isfinite(v)) or v.min() < 0 or abs(v.sum() - T) > 1e-9 * T:
            fails.append(('invalid', 'region %r: not a finite nonnegative table with the total' % (r,)))
    if fails:
        return fails, 0.0, 0.0, len(regs)
    if zero_cell is not None:
        A, b = constraint_matrix(dom, regs)
        q = np.concatenate([np.asarray(mu[r].values, dtype=float).flatten() / T for r in regs])
        primal = float(np.abs(A @ q - b).max())
        if primal > 1e-7:
            fails.append(('not-consistent', 'structural zero in %r: pseudo-marginals disagree on a shared sub-region: primal residual %.3g' % (zero_cell[0], primal)))
        mass = float(np.asarray(mu[zero_cell[0]].values)[zero_cell[1]])
        if mass > 1e-12 * T:
            fails.append(('mass-on-zero', 'region %r keeps mass %.3g on its structurally impossible cell' % (zero_cell[0], mass)))
        # the optimum with -inf is the limit of the optima with a very negative finite value
        pots2 = CliqueVector({r: Factor(dom.project(r), np.where(np.isneginf(snap_[r]), -200.0, snap_[r])) for r in regs})
        rg2 = RegionGraph(dom, list(fam), total=T, minimal=minimal, convex=True, iters=5000, convergence=1e-10, damping=damping)
        mu2 = rg2.belief_propagation(pots2)
        dmax = max(float(np.abs(np.asarray(mu[r].values) - np.asarray(mu2[r].values)).max()) for r in regs)
        if dmax > 1e-6 * T:
            fails.append(('not-optimal', 'structural zero in %r: result differs by %.3g (total %g) from the optimum with -200 in place of -inf' % (zero_cell[0], dmax, T)))
        return fails, primal, 0.0, len(regs)
    A, b = constraint_matrix(dom, regs)
    q = np.concatenate([np.asarray(mu[r].values, dtype=float).flatten() / T for r in regs])
    th = np.concatenate([np.asarray(pots[r].values, dtype=float).flatten() for r in regs])
    primal = float(np.abs(A @ q - b).max())
    g = th - np.log(np.maximum(q, 1e-300)) - 1
    lam = np.linalg.lstsq(A.T, g, rcond=None)[0]
    dual = float(np.abs(A.T @ lam - g).max())
    tol_ = 1e-6 if job.get('schedule') == 'one-sweep-calls' else 1e-7
    if primal > tol_:
        fails.append(('not-consistent', 'pseudo-marginals disagree on a shared sub-region: primal residual %.3g (all nested region pairs)' % primal))
    if dual > tol_:
        fails.append(('not-optimal', 'stationarity of the convexified free energy violated: dual residual %.3g (primal %.3g)' % (dual, primal)))
    return fails, primal, dual, len(regs)


def run_job(job):
    acc = Acc()
    for cfg in job['cfgs']:
        case = {'k': job['k'], 'fam': job['fam'], 'present': job['present'], 'cfgs': [list(cfg)], 'seed': job['seed'], 'late_total': job.get('late_total', False), 'schedule': job.get('schedule')}
        with M.quiet():
            fails, primal, dual, nreg = run_cfg(job, tuple(cfg))
        acc.case(case, nontrivial=nreg >= 2)
        acc.maximum('primal_residual', primal, case)
        acc.maximum('dual_residual', dual, case)
        acc.outcome('ok' if not fails else 'FAIL:' + fails[0][0])
        for kd, msg in fails:
            acc.violate(case, {'kind': kd, 'damping': cfg[0], 'minimal': cfg[1]}, 'family %r (%s) damping %g minimal %s potentials %s total %g: %s' % (
                job['fam'], job['present'], cfg[0], cfg[1], cfg[2], cfg[3], msg))
    acc.sample(case)
    return acc


def replay(case):
    with M.quiet():
        fails, primal, dual, nreg = run_cfg(case, tuple(case['cfgs'][0]))
    print('primal %.3g dual %.3g regions %d' % (primal, dual, nreg))
    for k, m in fails:
        print(k, m)
    return [{'key': {'kind': k}, 'msg': m} for k, m in fails]
