"""C16 - approximate marginal oracles are normalised, and exact on acyclic structures.

E1 x E3: all clique sets over <=3 attributes (antichains over 4 in thorough) x presentations
x potential classes x sweep counts, plus call histories on one object (messages persist);
oracle: explicit joint for the structures classified acyclic by an independent GYO
reduction / bipartite cycle test."""
import itertools
import zlib

import numpy as np

from ..core import Acc
from .. import oracle as O
from .. import structs as S
from .. import meas as M

PROPERTY = 'C16'
LEVEL = 'model_checking'
DESIGN_REF = 'DESIGN.md section 5 / C16'
TECHNIQUE = ('exhaustive enumeration of clique sets x potential classes x sweep counts and of call histories (persisting messages) on the real '
             'RegionGraph/FactorGraph oracles; independent acyclicity classifiers + brute-force joint')
RULE = ('case = (oracle, clique set, presentation, potential class, total, history of calls, sweeps); clique sets: all 127 non-empty families of '
        'non-empty attribute subsets over (A,B,C) (quick) plus all antichains of cliques of size <= 3 over (A,B,C,D) (thorough); potential classes: '
        '(a) generic on the input cliques / zero on derived regions, (b) generic on every exposed region, (c) x50 scale; histories: 1..3 consecutive '
        'calls with different potentials on one object. states = (object, history) nodes, transitions = belief_propagation calls. non-trivial = '
        '>= 2 cliques; distinct = digest of the case.')
LEVEL_TEXT = ('Complete enumeration of the small hypergraph space; normalisation/finiteness is required of every case, exactness of every case that '
              'an independent classifier puts in the acyclic class (running intersection for region graphs, forest for factor graphs), at the sweep '
              'count where the damped updates must have converged; histories check that persisted messages do not spoil later answers.')
LEVEL_NOTE = ('"enough sweeps" is decided at 60 sweeps for generalised BP (damping 1/2) and at the factor-graph diameter for loopy BP; values from a seeded alphabet; '
              'the same attribute set written twice in different orders is outside the alphabet.')
ASSUMPTIONS = ['tolerance 1e-7*total for exactness, 1e-9*total for normalisation']

SIZES = [2, 3, 2, 2]


def bounds(tier):
    return {'attributes': 3 if tier == 'quick' else '3 (all families) + 4 (all antichains, cliques <= 3)', 'sweeps': ['d', '2d', 60],
            'history_depth': 2 if tier == 'quick' else 3, 'potential_classes': ['a', 'b', 'c', 'z (a whole attribute value structurally impossible)'], 'totals': [1.0, 10.0, 0.25]}


def families(k, antichains_only):
    attrs = S.ATTRS[:k]
    subs = [c for r in range(1, min(k, 3) + 1) for c in itertools.combinations(attrs, r)]
    out = []
    for r in range(1, len(subs) + 1):
        for fam in itertools.combinations(subs, r):
            if antichains_only and any(set(a) < set(b) or set(b) < set(a) for a, b in itertools.combinations(fam, 2)):
                continue
            out.append(fam)
    return out


# junction-tree-structured clique sets whose region graph is four levels deep (binary attributes, <= 128 joint cells)
DEEP = {
    'abcd-bcde-cdf-dg': [('A', 'B', 'C', 'D'), ('B', 'C', 'D', 'E'), ('C', 'D', 'F'), ('D', 'G')],
    'window4x7': [('A', 'B', 'C', 'D'), ('B', 'C', 'D', 'E'), ('C', 'D', 'E', 'F'), ('D', 'E', 'F', 'G')],
    'window4x6': [('A', 'B', 'C', 'D'), ('B', 'C', 'D', 'E'), ('C', 'D', 'E', 'F')],
    'window3x6': [('A', 'B', 'C'), ('B', 'C', 'D'), ('C', 'D', 'E'), ('D', 'E', 'F')],
    'caterpillar': [('A', 'B', 'C'), ('B', 'C', 'D'), ('C', 'E'), ('C', 'F'), ('D', 'G')],
}


def jobs(tier, seed):
    out = []
    for name in DEEP:
        out.append({'deep': name, 'seed': seed, 'tier': tier})
    f3 = families(3, False)
    for i in range(0, len(f3), 4):
        out.append({'k': 3, 'lo': i, 'hi': min(len(f3), i + 4), 'anti': False, 'seed': seed, 'tier': tier})
    if tier == 'thorough':
        f4 = families(4, True)
        for i in range(0, len(f4), 8):
            out.append({'k': 4, 'lo': i, 'hi': min(len(f4), i + 8), 'anti': True, 'seed': seed, 'tier': tier})
    return out


def potentials_for(dom, regions, generic_on, scale, rng):
    from mbi import Factor, CliqueVector
    out = {}
    for r in regions:
        shp = dom.project(r).shape
        out[r] = Factor(dom.project(r), scale * rng.randn(*shp) if r in generic_on else np.zeros(shp))
    return CliqueVector(out)


def zero_slice(pots, region):
    """structural zero on a whole attribute value: the first value of the first attribute of `region` becomes impossible"""
    f = pots[region]
    if f.values.ndim >= 1 and f.values.shape[0] >= 2:
        f.values[0, ...] = -np.inf


def CliqueVectorCopy(dom, snap):
    from mbi import Factor, CliqueVector
    return CliqueVector({c: Factor(dom.project(c), a.copy()) for c, a in snap.items()})


def validity(mu, regions, total, what, fails):
    for r in regions:
        if r not in mu:
            fails.append(('missing', '%s: no pseudo-marginal for region %r' % (what, r)))
            continue
        v = np.asarray(mu[r].values, dtype=float)
        if not np.all(np.isfinite(v)):
            fails.append(('non-finite', '%s: region %r has non-finite entries' % (what, r)))
        elif v.min() < 0:
            fails.append(('negative', '%s: region %r has a negative entry' % (what, r)))
        elif abs(v.sum() - total) > 1e-9 * total:
            fails.append(('not-normalised', '%s: region %r sums to %.12g, total %g' % (what, r, v.sum(), total)))


def exactness(mu, pots, regions, attrs, sizes, total, what, fails):
    joint = O.explicit_joint(attrs, sizes, [(tuple(pots[r].domain.attrs), pots[r].values) for r in pots], total)
    worst = 0.0
    for r in regions:
        got = mu[r]
        ref = O.marginal(joint, attrs, tuple(got.domain.attrs))
        d = O.maxdiff(got.values, ref) / total
        worst = max(worst, d)
    if worst > 1e-7:
        fails.append(('inexact', '%s: pseudo-marginals differ from the exact marginals by %.3g of the total on an acyclic structure' % (what, worst)))
    return worst


def run_family(acc, job, fam, present):
    from mbi import Domain, RegionGraph, FactorGraph
    k = job['k']
    attrs, sizes = S.ATTRS[:k], SIZES[:k]
    dom = Domain(attrs, sizes)
    cliques = [tuple(c) if present == 'sorted' else tuple(reversed(c)) for c in fam]
    maximal = [c for c in cliques if not any(set(c) < set(d) for d in cliques)]
    rip = O.gyo_acyclic(maximal)
    forest = O.factor_graph_is_forest(attrs, cliques)
    seedbase = zlib.crc32(repr((job['seed'], fam, present)).encode())
    depth = 2 if job['tier'] == 'quick' else 3
    # ---------------- region graph (generalised BP) ----------------
    # RegionGraph(convex=False) discards non-maximal cliques: antichains are the distinct inputs
    is_antichain = len(maximal) == len(cliques)
    for minimal in ((True, False) if is_antichain else ()):
        for total0 in (1.0, 10.0):
            for pclass in ('a', 'b', 'c', 'z'):
                total = 0.25 if (total0 == 1.0 and pclass in ('c', 'z')) else total0    # totals below one record for two of the classes
                rg0 = RegionGraph(dom, list(cliques), total=total, minimal=minimal, convex=False, iters=60)
                regions = list(rg0.cliques)
                d = max(1, len(regions))
                for iters in sorted({d, 2 * d, 60}):
                    rg = RegionGraph(dom, list(cliques), total=total, minimal=minimal, convex=False, iters=iters)
                    for h in range(1, depth + 1):
                        rng = np.random.RandomState((seedbase + 7 * h + 13 * iters) % 2 ** 31)
                        gen = set(regions) if pclass == 'b' else {r for r in regions if r in maximal}
                        pots = potentials_for(dom, regions, gen, 50.0 if pclass == 'c' else 1.0, rng)
                        if pclass == 'z':
                            zero_slice(pots, [r for r in regions if r in maximal][0])
                        snap = {c: np.array(pots[c].values, copy=True) for c in regions}
                        mu = rg.belief_propagation(pots)
                        if h == depth:
                            # the same CliqueVector object passed again after the caller updated its contents in place
                            for r_ in regions:
                                if r_ in gen:
                                    pots[r_].values[...] = pots[r_].values + 0.7 * rng.randn(*pots[r_].values.shape)
                            snap = {c: np.array(pots[c].values, copy=True) for c in regions}
                            mu = rg.belief_propagation(pots)
                        mutated = [c for c in regions if not np.array_equal(snap[c], np.asarray(pots[c].values), equal_nan=True)]
                        case = {'oracle': 'region-graph', 'k': k, 'fam': [list(c) for c in fam], 'present': present, 'minimal': minimal, 'total': total,
                                'pclass': pclass, 'iters': iters, 'calls': h, 'seed': job['seed'], 'tier': job['tier']}
                        acc.case(case, nontrivial=len(maximal) >= 2)
                        acc.states += 1
                        acc.transitions += 1
                        acc.traces += 1
                        fails = []
                        what = 'RegionGraph(convex=False, minimal=%s, iters=%d) call %d' % (minimal, iters, h)
                        if mutated:
                            fails.append(('potentials-mutated', '%s overwrote the potentials it was given (regions %r)' % (what, mutated)))
                            pots = CliqueVectorCopy(dom, snap)
                        validity(mu, regions, total, what, fails)
                        if rip and iters == 60 and not fails:
                            w = exactness(mu, pots, regions, attrs, sizes, total, what, fails)
                            acc.maximum('gbp_rip_error:%s' % pclass, w, case)
                        acc.outcome('gbp:%s:%s:%s' % ('rip' if rip else 'loopy', pclass, 'ok' if not fails else 'FAIL'))
                        for kd, msg in fails:
                            acc.violate(case, {'kind': kd, 'oracle': 'region-graph', 'pclass': pclass, 'derived_region_potentials': pclass == 'b' and len(regions) > len(maximal)},
                                        'cliques %r: %s' % (cliques, msg))
    # ---------------- factor graph (loopy BP) ----------------
    # attribute names as equal-but-distinct string objects in the domain and in the cliques (names read from a file, built by
    # formatting, ...): equality, not identity, must decide
    if present == 'sorted':
        mk = lambda a: ''.join(['attr', '_', a.lower()])
        attrs_u = [mk(a) for a in attrs]
        dom_u = Domain(attrs_u, sizes)
        cliques_u = [tuple(mk(a) for a in c) for c in cliques]
        assert all(x is not y for x, y in zip(attrs_u, [a for a in map(mk, attrs)]))
        rng = np.random.RandomState((seedbase + 5) % 2 ** 31)
        for orc in ('fg', 'rg'):
            if orc == 'rg' and not is_antichain:
                continue
            obj = FactorGraph(dom_u, list(cliques_u), total=10.0, convex=False, iters=60) if orc == 'fg' else \
                RegionGraph(dom_u, list(cliques_u), total=10.0, convex=False, iters=60)
            regs = list(cliques_u) if orc == 'fg' else list(obj.cliques)
            pots = potentials_for(dom_u, regs, set(cliques_u), 1.0, rng)
            mu = obj.belief_propagation(pots)
            case = {'oracle': 'factor-graph' if orc == 'fg' else 'region-graph', 'k': k, 'fam': [list(c) for c in fam], 'present': present, 'names': 'uninterned',
                    'seed': job['seed'], 'tier': job['tier']}
            acc.case(case, nontrivial=len(cliques) >= 2)
            acc.states += 1
            acc.transitions += 1
            acc.traces += 1
            fails = []
            what = '%s with equal-but-distinct name objects' % ('FactorGraph' if orc == 'fg' else 'RegionGraph')
            validity(mu, regs, 10.0, what, fails)
            if not fails and ((orc == 'fg' and forest) or (orc == 'rg' and rip)):
                exactness(mu, pots, regs, attrs_u, sizes, 10.0, what, fails)
            acc.outcome('names:%s' % ('ok' if not fails else 'FAIL'))
            for kd, msg in fails:
                acc.violate(case, {'kind': kd, 'oracle': case['oracle'], 'names': 'uninterned'}, 'cliques %r: %s' % (cliques, msg))
            # the total is a public attribute (LocalInference assigns it on a user-supplied oracle): a later call must honour the new value
            obj.total = 2.5
            mu = obj.belief_propagation(pots)
            fails = []
            validity(mu, regs, 2.5, what + ' after total was reassigned 10 -> 2.5', fails)
            for kd, msg in fails:
                acc.violate(dict(case, total_reassigned=True), {'kind': kd, 'oracle': case['oracle'], 'total_reassigned': True}, 'cliques %r: %s' % (cliques, msg))
    diam = 2 * (len(cliques) + k) + 2
    for total, scale in ((1.0, 1.0), (10.0, 50.0), (10.0, 'z')) if job['tier'] == 'quick' else ((1.0, 1.0), (10.0, 50.0), (1.0, 50.0), (10.0, 1.0), (10.0, 'z'), (1.0, 'z')):
        if True:
            for iters in (sorted({diam, 2 * diam}) if job['tier'] == 'quick' else sorted({diam, 2 * diam, 60})):
                fg = FactorGraph(dom, list(cliques), total=total, convex=False, iters=iters)
                for h in range(1, depth + 1):
                    rng = np.random.RandomState((seedbase + 11 * h + 17 * iters + 3) % 2 ** 31)
                    pots = potentials_for(dom, cliques, set(cliques), 1.0 if scale == 'z' else scale, rng)
                    if scale == 'z':
                        zero_slice(pots, max(cliques, key=len))   # a whole attribute value is structurally impossible
                    snap = {c: np.array(pots[c].values, copy=True) for c in cliques}
                    seen_cb = []
                    mu = fg.belief_propagation(pots, callback=(lambda m: seen_cb.append(1)) if h == 2 else None)
                    if h == depth:
                        # the same CliqueVector object passed again after the caller updated its contents in place
                        for c_ in cliques:
                            pots[c_].values[...] = pots[c_].values + 0.7 * rng.randn(*pots[c_].values.shape)
                        snap = {c: np.array(pots[c].values, copy=True) for c in cliques}
                        mu = fg.belief_propagation(pots)
                    mutated = [c for c in cliques if not np.array_equal(snap[c], np.asarray(pots[c].values), equal_nan=True)]
                    case = {'oracle': 'factor-graph', 'k': k, 'fam': [list(c) for c in fam], 'present': present, 'total': total, 'scale': scale,
                            'iters': iters, 'calls': h, 'seed': job['seed'], 'tier': job['tier']}
                    acc.case(case, nontrivial=len(cliques) >= 2)
                    acc.states += 1
                    acc.transitions += 1
                    acc.traces += 1
                    fails = []
                    what = 'FactorGraph(convex=False, iters=%d) call %d' % (iters, h)
                    if mutated:
                        fails.append(('potentials-mutated', '%s overwrote the potentials it was given (cliques %r)' % (what, mutated)))
                        pots = CliqueVectorCopy(dom, snap)
                    validity(mu, cliques, total, what, fails)
                    if forest and not fails:
                        w = exactness(mu, pots, cliques, attrs, sizes, total, what, fails)
                        acc.maximum('lbp_tree_error', w, case)
                    acc.outcome('lbp:%s:%s' % ('tree' if forest else 'loopy', 'ok' if not fails else 'FAIL'))
                    for kd, msg in fails:
                        acc.violate(case, {'kind': kd, 'oracle': 'factor-graph'}, 'cliques %r: %s' % (cliques, msg))


def run_deep(acc, job):
    """RIP structures with deep region graphs; damping is a constructor parameter GBP must not depend on"""
    from mbi import Domain, RegionGraph
    name = job['deep']
    cliques = DEEP[name]
    attrs = sorted({a for c in cliques for a in c})
    sizes = [2] * len(attrs)
    dom = Domain(attrs, sizes)
    assert O.gyo_acyclic(cliques)
    for present in ('sorted', 'reversed'):
        cl = [tuple(c) if present == 'sorted' else tuple(reversed(c)) for c in cliques]
        for minimal in (True, False):
            for damping in (0.5, 0.2, 0.8):
                for pclass in ('a', 'b'):
                    total = 10.0 if pclass == 'a' else 1.0
                    rg = RegionGraph(dom, list(cl), total=total, minimal=minimal, convex=False, iters=80, damping=damping)
                    regions = list(rg.cliques)
                    rng = np.random.RandomState(zlib.crc32(repr((job['seed'], name, present, pclass)).encode()) % 2 ** 31)
                    gen = set(regions) if pclass == 'b' else set(cl)
                    for h in (1, 2):
                        pots = potentials_for(dom, regions, gen, 1.0, rng)
                        mu = rg.belief_propagation(pots)
                        case = {'oracle': 'region-graph', 'deep': name, 'present': present, 'minimal': minimal, 'damping': damping, 'pclass': pclass,
                                'calls': h, 'seed': job['seed'], 'tier': job['tier']}
                        acc.case(case)
                        acc.states += 1
                        acc.transitions += 1
                        acc.traces += 1
                        fails = []
                        what = 'RegionGraph(convex=False, minimal=%s, damping=%g, iters=80) call %d' % (minimal, damping, h)
                        validity(mu, regions, total, what, fails)
                        if not fails:
                            w = exactness(mu, pots, regions, attrs, sizes, total, what, fails)
                            acc.maximum('gbp_deep_error', w, case)
                        acc.outcome('gbp-deep:%s' % ('ok' if not fails else 'FAIL'))
                        for kd, msg in fails:
                            acc.violate(case, {'kind': kd, 'oracle': 'region-graph', 'deep': True, 'damping': damping}, 'cliques %r: %s' % (cl, msg))
    acc.sample({'deep': name, 'cliques': [list(c) for c in cliques], 'damping': [0.5, 0.2, 0.8], 'minimal': [True, False]})


def run_job(job):
    acc = Acc()
    if 'deep' in job:
        with M.quiet():
            run_deep(acc, job)
        return acc
    fams = families(job['k'], job['anti'])
    for i in range(job['lo'], job['hi']):
        for present in ('sorted', 'reversed'):
            if present == 'reversed' and all(len(c) == 1 for c in fams[i]):
                continue
            with M.quiet():
                run_family(acc, dict(job), fams[i], present)
    acc.sample({'cliques': [list(c) for c in fams[job['lo']]], 'presentations': ['sorted', 'reversed'], 'classes': ['a', 'b', 'c'], 'sweeps': ['d', '2d', 60]})
    return acc


def replay(case):
    from .. import core
    core.MAX_VIOL_PER_JOB = 10 ** 6
    acc = Acc()
    if 'deep' in case:
        with M.quiet():
            run_deep(acc, {'deep': case['deep'], 'seed': case['seed'], 'tier': case['tier']})
        keys = ('present', 'minimal', 'damping', 'pclass', 'calls')
        vs = [v for v in acc.violations if all(v['case'].get(k) == case.get(k) for k in keys)]
        for v in vs:
            print(v['msg'])
        return vs
    fam = tuple(tuple(c) for c in case['fam'])
    with M.quiet():
        run_family(acc, {'k': case['k'], 'seed': case['seed'], 'tier': case['tier']}, fam, case['present'])
    want = {k: case.get(k) for k in ('oracle', 'minimal', 'total', 'pclass', 'iters', 'calls', 'scale', 'names', 'total_reassigned')}
    vs = [v for v in acc.violations if all(v['case'].get(k) == x for k, x in want.items())]
    if not vs and acc.nviol > len(acc.violations):
        vs = acc.violations[:1]
    for v in vs:
        print(v['msg'])
    return vs
