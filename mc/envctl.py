"""E2 - environment-answer explorer.

numpy.random.{normal, laplace, choice, shuffle, permutation, rand, randint} are
replaced, for the duration of one execution, by a controller that DECIDES every
answer.  An execution is identified by its list of decisions; `explore` runs the
default execution (all decisions 0), then every execution with 1 deviation, 2, ...
(iterative deviation bounding).  Prefixes are replayed on a fresh call; an
out-of-range decision while replaying a prefix is a hard harness error."""
import contextlib
import itertools
import math

import numpy as np


class ReplayDivergence(RuntimeError):
    pass


class HarnessMisuse(RuntimeError):
    pass


class EnvValueError(ValueError):
    """numpy's own argument validation, reproduced by the controller: the real generator would have raised
    ValueError at this call, so the exception belongs to the code under test, not to the harness"""


class Controller:
    """decision bookkeeping shared by all environments"""

    def __init__(self, prefix=()):
        self.prefix = list(prefix)
        self.choices = []
        self.points = []   # (kind, number of alternatives)
        self.log = []      # every environment call, in order

    def decide(self, kind, nalts):
        i = len(self.choices)
        if i < len(self.prefix):
            c = self.prefix[i]
            if c >= nalts:
                raise ReplayDivergence('decision %d=%d out of range (%d alternatives, kind %s)' % (i, c, nalts, kind))
        else:
            c = 0
        self.choices.append(c)
        self.points.append((kind, nalts))
        return c

    @property
    def deviations(self):
        return sum(1 for c in self.choices if c != 0)


def explore(run, bound, cap=None):
    """run(prefix) -> Controller (after the execution finished).  Yields every execution with
    at most `bound` deviations from the default.  `cap` limits the number of executions (reported by caller)."""
    stack = [[]]
    n = 0
    while stack:
        prefix = stack.pop()
        ctrl = run(prefix)
        n += 1
        yield ctrl
        if cap is not None and n >= cap:
            return
        if sum(1 for c in prefix if c != 0) >= bound:
            continue
        for i in range(len(ctrl.points) - 1, len(prefix) - 1, -1):
            for alt in range(ctrl.points[i][1] - 1, 0, -1):
                stack.append(ctrl.choices[:i] + [alt])


_NAMES = ['normal', 'laplace', 'choice', 'shuffle', 'permutation', 'rand', 'randint', 'random', 'uniform']


@contextlib.contextmanager
def installed(env):
    """patch numpy.random module functions with env.<name>; restore afterwards"""
    saved = {n: getattr(np.random, n) for n in _NAMES}
    try:
        for n in _NAMES:
            fn = getattr(env, n, None)
            if fn is None:
                def fn(*a, _n=n, **k):
                    raise HarnessMisuse('numpy.random.%s is not owned by this environment' % _n)
            setattr(np.random, n, fn)
        yield env
    finally:
        for n, f in saved.items():
            setattr(np.random, n, f)


def validate_p(a, size, replace, p):
    """numpy's own argument validation for choice(), reproduced so that an execution which would raise
    under the real generator also raises under the controller"""
    n = int(a) if np.isscalar(a) else len(a)
    if n <= 0:
        raise EnvValueError('a must be non-empty')
    if p is not None:
        pp = np.asarray(p, dtype=float)
        if pp.ndim != 1 or pp.size != n:
            raise EnvValueError("'a' and 'p' must have same size")
        if np.isnan(pp).any():
            raise EnvValueError('probabilities contain NaN')
        if (pp < 0).any():
            raise EnvValueError('probabilities are not non-negative')
        if abs(pp.sum() - 1.0) > 1e-8:
            raise EnvValueError('probabilities do not sum to 1')
        if not replace and size is not None:
            k = int(np.prod(size))
            if np.count_nonzero(pp > 0) < k:
                raise EnvValueError('Fewer non-zero entries in p than size')
    if not replace and size is not None and int(np.prod(size)) > n:
        raise EnvValueError("Cannot take a larger sample than population when 'replace=False'")
    return n


def largest_remainder(n, p, cover_support=True):
    """deterministic 'sample' of n draws from p: largest-remainder rounding of n*p, and every
    support element at least once when n >= |support| (so that every configuration with
    positive probability is realised)"""
    p = np.asarray(p, dtype=float)
    x = n * p
    c = np.floor(x + 1e-12).astype(int)
    rem = x - c
    extra = n - int(c.sum())
    if extra > 0:
        order = np.argsort(-rem, kind='stable')
        order = [i for i in order if p[i] > 0]
        for i in order[:extra]:
            c[i] += 1
    elif extra < 0:
        order = [i for i in np.argsort(rem, kind='stable') if c[i] > 0]
        for i in order[:-extra]:
            c[i] -= 1
    if cover_support:
        sup = np.nonzero(p > 0)[0]
        if n >= len(sup):
            for i in sup:
                if c[i] == 0:
                    j = int(np.argmax(c))
                    c[j] -= 1
                    c[i] += 1
    assert c.sum() == n and (c[p <= 0] == 0).all()
    return c


def subsets_menu(support, k, limit=20):
    """alternatives for choice(size=k, replace=False): all k-subsets of the support when there are <= limit,
    otherwise first-k, last-k and the k largest-gap picks"""
    support = list(support)
    if k == 0:
        return [[]]
    if math.comb(len(support), k) <= limit:
        return [list(c) for c in itertools.combinations(support, k)]
    alts = [support[:k], support[-k:]]
    mid = support[len(support) // 2 - k // 2: len(support) // 2 - k // 2 + k]
    if mid not in alts:
        alts.append(mid)
    step = support[::max(1, len(support) // k)][:k]
    if len(step) == k and step not in alts:
        alts.append(step)
    return alts
