"""Shared runner: job fan-out, merging, violation confirmation, known findings,
evidence.  A check module (mc/checks/cXX.py) provides

    PROPERTY, LEVEL, RULE, ASSUMPTIONS, DESIGN_REF
    jobs(tier, seed)      -> list of JSON-able job dicts (fixed order)
    run_job(job)          -> Acc            (explores every case of the job)
    replay(case)          -> list of violation dicts (re-executes ONE case)
    hashseeds(tier)       -> list of PYTHONHASHSEED values (optional, default [0])
    bounds(tier)          -> dict describing the bounds completed (optional)
"""
import collections
import hashlib
import importlib
import json
import os
import subprocess
import sys
import tempfile
import time
import traceback

from . import VERIF, REPO, GUARD

MAX_VIOL_PER_JOB = 12
MAX_REPORT = 10


def digest(obj):
    s = json.dumps(obj, sort_keys=True, default=_jd)
    return hashlib.blake2b(s.encode(), digest_size=8).hexdigest()


def _jd(o):
    import numpy as np
    if isinstance(o, np.ndarray):
        return o.tolist()
    if isinstance(o, (np.integer,)):
        return int(o)
    if isinstance(o, (np.floating,)):
        return float(o)
    if isinstance(o, (np.bool_,)):
        return bool(o)
    if isinstance(o, (set, frozenset)):
        return sorted(o)
    if isinstance(o, bytes):
        return o.hex()
    return repr(o)


def jsonable(o):
    return json.loads(json.dumps(o, default=_jd))


class Acc:
    """Accumulator for one job (and, merged, for a whole run)."""

    def __init__(self):
        self.evals = 0
        self.states = 0
        self.transitions = 0
        self.traces = 0
        self.digests = set()
        self.outcomes = collections.Counter()
        self.violations = []
        self.nviol = 0
        self.samples = []
        self.maxima = {}
        self.counters = collections.Counter()
        self.caps = []

    # -- recording -----------------------------------------------------
    def case(self, desc=None, nontrivial=True, n=1):
        """count n evaluated cases; desc (JSON-able) identifies the distinct case"""
        self.evals += n
        if nontrivial and desc is not None:
            self.digests.add(digest(desc))

    def sample(self, s, limit=3):
        if len(self.samples) < limit:
            self.samples.append(jsonable(s))

    def outcome(self, name, n=1):
        self.outcomes[str(name)] += n

    def maximum(self, name, value, where=None):
        try:
            v = float(value)
        except Exception:
            return
        if v != v:
            return
        cur = self.maxima.get(name)
        if cur is None or v > cur[0]:
            self.maxima[name] = [v, jsonable(where)]

    def violate(self, case, key, msg):
        self.nviol += 1
        if len(self.violations) < MAX_VIOL_PER_JOB:
            self.violations.append({'case': jsonable(case), 'key': jsonable(key), 'msg': str(msg)[:2000]})

    def cap(self, text):
        if text not in self.caps:
            self.caps.append(text)

    # -- (de)serialisation / merging ---------------------------------------
    def to_json(self):
        return {'evals': self.evals, 'states': self.states, 'transitions': self.transitions,
                'traces': self.traces, 'digests': sorted(self.digests), 'outcomes': dict(self.outcomes),
                'violations': self.violations, 'nviol': self.nviol, 'samples': self.samples,
                'maxima': self.maxima, 'counters': dict(self.counters), 'caps': self.caps}

    def merge_json(self, d, tag=None):
        self.evals += d['evals']
        self.states += d['states']
        self.transitions += d['transitions']
        self.traces += d['traces']
        self.digests.update(d['digests'])
        self.outcomes.update(d['outcomes'])
        for v in d['violations']:
            if tag is not None:
                v = dict(v)
                v.setdefault('env', {}).update(tag)
            if len(self.violations) < 400:
                self.violations.append(v)
        self.nviol += d['nviol']
        for s in d['samples']:
            if len(self.samples) < 4:
                self.samples.append(s)
        for k, (v, w) in d['maxima'].items():
            cur = self.maxima.get(k)
            if cur is None or v > cur[0]:
                self.maxima[k] = [v, w]
        self.counters.update(d['counters'])
        for c in d['caps']:
            self.cap(c)


def load_check(pid):
    return importlib.import_module('mc.checks.%s' % pid.lower())


# ---------------------------------------------------------------------------
# child side
# ---------------------------------------------------------------------------
_MOD = None


def _classify_exception(tb_list, ex=None):
    """True if the exception was raised below repo code called from a check"""
    mc_dir = os.path.join(VERIF, 'mc') + os.sep
    repo = os.path.realpath(REPO) + os.sep
    if ex is not None and type(ex).__name__ == 'EnvValueError':
        # raised by the controller on behalf of numpy.random (argument validation): attribute it to the caller
        return any(os.path.realpath(fr.filename).startswith(repo) for fr in tb_list)
    last_mc = -1
    for i, fr in enumerate(tb_list):
        if os.path.realpath(fr.filename).startswith(mc_dir):
            last_mc = i
    return any(os.path.realpath(fr.filename).startswith(repo) for fr in tb_list[last_mc + 1:])


def _run_one(job):
    import warnings
    warnings.filterwarnings('ignore')
    t = time.time()
    try:
        acc = _MOD.run_job(job)
        out = acc.to_json()
    except Exception as ex:  # noqa
        tb = traceback.extract_tb(ex.__traceback__)
        text = ''.join(traceback.format_exception(type(ex), ex, ex.__traceback__))[-3000:]
        if _classify_exception(tb, ex):
            acc = Acc()
            acc.case(None, nontrivial=False)
            site = [fr for fr in tb if os.path.realpath(fr.filename).startswith(os.path.realpath(REPO) + os.sep)][-1]
            acc.violate({'job': job}, {'kind': 'exception', 'exc': type(ex).__name__,
                                       'site': '%s:%s' % (os.path.relpath(site.filename, REPO), site.name)},
                        'code under test raised %s: %s\n%s' % (type(ex).__name__, ex, text))
            out = acc.to_json()
        else:
            out = {'harness_error': text, 'job': jsonable(job)}
    out['wall'] = time.time() - t
    out['jobdesc'] = json.dumps(jsonable(job))[:300]
    return out


def child_main(pid, tier, seed, outpath, workers):
    global _MOD
    from . import bind_repo
    bind_repo()
    _MOD = load_check(pid)
    import numpy as np
    np.seterr(all='ignore')
    jobs = list(_MOD.jobs(tier, seed))
    total = Acc()
    errors = []
    slow = []
    if workers <= 1 or len(jobs) <= 1:
        results = map(_run_one, jobs)
        pool = None
    else:
        import multiprocessing as mp
        ctx = mp.get_context('fork')
        pool = ctx.Pool(min(workers, len(jobs)))
        results = pool.imap_unordered(_run_one, jobs, chunksize=1)
    for r in results:
        if 'harness_error' in r:
            errors.append(r)
            continue
        slow.append((r.get('wall', 0.0), r.get('jobdesc', '')))
        total.merge_json(r)
    if pool is not None:
        pool.close()
        pool.join()
    out = total.to_json()
    out['njobs'] = len(jobs)
    out['errors'] = errors[:5]
    out['job_wall_max'] = max(w for w, _ in slow) if slow else 0.0
    out['job_wall_sum'] = sum(w for w, _ in slow)
    out['slowest_jobs'] = [[round(w, 2), d] for w, d in sorted(slow, reverse=True)[:5]]
    with open(outpath, 'w') as f:
        json.dump(out, f)


def confirm_main(pid, casepath, outpath):
    """re-execute one recorded case in a fresh interpreter; write what was observed"""
    global _MOD
    from . import bind_repo
    bind_repo()
    _MOD = load_check(pid)
    import numpy as np
    np.seterr(all='ignore')
    rec = json.load(open(casepath))
    case = rec['case']
    try:
        if 'job' in case and len(case) == 1:
            r = _run_one(case['job'])
            viols = r.get('violations', []) if 'harness_error' not in r else None
            if viols is None:
                raise RuntimeError(r['harness_error'])
        else:
            viols = _MOD.replay(case)
    except Exception as ex:  # noqa
        tb = traceback.extract_tb(ex.__traceback__)
        if _classify_exception(tb, ex):
            viols = [{'key': {'kind': 'exception', 'exc': type(ex).__name__}, 'msg': 'raised %s: %s' % (type(ex).__name__, ex)}]
        else:
            raise
    with open(outpath, 'w') as f:
        json.dump({'violations': jsonable(viols)}, f)
    return viols


# ---------------------------------------------------------------------------
# parent side
# ---------------------------------------------------------------------------
def _env(hashseed):
    env = dict(os.environ)
    env['PYTHONHASHSEED'] = str(hashseed)
    env[GUARD] = '1'
    for k in ('OMP_NUM_THREADS', 'OPENBLAS_NUM_THREADS', 'MKL_NUM_THREADS', 'NUMEXPR_NUM_THREADS'):
        env[k] = '1'
    env['PYTHONPATH'] = VERIF
    env['PYTHONDONTWRITEBYTECODE'] = '1'
    return env


def scratch_dir():
    base = os.path.join(VERIF, '.scratch')
    os.makedirs(base, exist_ok=True)
    return tempfile.mkdtemp(prefix='run-', dir=base)


def match_finding(f, prop, key):
    if f.get('property') != prop or f.get('status') != 'open':
        return False
    for k, want in f.get('match', {}).items():
        have = key.get(k)
        if isinstance(want, dict):
            if 'in' in want and have not in want['in']:
                return False
            if 'le' in want and not (have is not None and have <= want['le']):
                return False
            if 'ge' in want and not (have is not None and have >= want['ge']):
                return False
        elif have != want:
            return False
    return True


def load_findings():
    p = os.path.join(VERIF, 'known_findings.json')
    if not os.path.exists(p):
        return []
    return json.load(open(p)).get('findings', [])


def repo_state():
    try:
        head = subprocess.run(['git', '-C', REPO, 'rev-parse', '--short', 'HEAD'], capture_output=True, text=True).stdout.strip()
        dirty = subprocess.run(['git', '-C', REPO, 'status', '--porcelain', '--untracked-files=no'], capture_output=True, text=True).stdout.strip()
        return {'head': head, 'dirty': bool(dirty), 'path': REPO}
    except Exception:
        return {'path': REPO}


def parent_main(pid, tier, seed, workers=16, write_evidence=True):
    import shutil
    t0 = time.time()
    mod = load_check(pid)
    hs = mod.hashseeds(tier) if hasattr(mod, 'hashseeds') else [0]
    sd = scratch_dir()
    total = Acc()
    errors = []
    njobs = 0
    slowest = []
    cpu_s = 0.0
    try:
        for h in hs:
            outp = os.path.join(sd, 'part-%s.json' % h)
            cmd = [sys.executable, '-m', 'mc.run', pid, '--tier', tier, '--child', '--out', outp,
                   '--seed', str(seed), '--workers', str(workers)]
            cp = subprocess.run(cmd, cwd=VERIF, env=_env(h), capture_output=True, text=True)
            if cp.returncode != 0 or not os.path.exists(outp):
                print('HARNESS-ERROR child failed (hashseed %s)\n%s\n%s' % (h, cp.stdout[-2000:], cp.stderr[-4000:]))
                return 2
            d = json.load(open(outp))
            errors.extend(d['errors'])
            njobs += d['njobs']
            slowest.extend(d.get('slowest_jobs', []))
            cpu_s += d.get('job_wall_sum', 0.0)
            total.merge_json(d, tag={'hashseed': h})
        if errors:
            print('HARNESS-ERROR %d job(s) failed inside the harness; first:\n%s' % (len(errors), errors[0]['harness_error']))
            print('job:', json.dumps(errors[0]['job'])[:500])
            return 2

        # --- classify violations ------------------------------------------
        findings = load_findings()
        known_hits = collections.OrderedDict()
        unknown = []
        for v in total.violations:
            hit = None
            for i, f in enumerate(findings):
                if match_finding(f, pid, v['key']):
                    hit = i
                    break
            if hit is None:
                unknown.append(v)
            else:
                known_hits.setdefault(hit, []).append(v)

        # --- confirm (replay once in a fresh interpreter) -----------------
        reported = []
        unconfirmed = []
        seen_keys = set()
        rdir = os.path.join(VERIF, 'replays', pid)
        # one candidate per distinct key first (a state-dependent defect yields many violations a fresh interpreter cannot
        # reproduce next to the ones from explicit history cases, which it can)
        firsts, rest, seen_k = [], [], set()
        for v in unknown:
            kd0 = digest(v['key'])
            (rest if kd0 in seen_k else firsts).append(v)
            seen_k.add(kd0)
        attempts = 0
        for v in firsts + rest:
            kd = digest(v['key'])
            if kd in seen_keys and len(reported) >= 3:
                continue
            if len(reported) >= MAX_REPORT or attempts >= 40:
                break
            attempts += 1
            seen_keys.add(kd)
            os.makedirs(rdir, exist_ok=True)
            path = os.path.join(rdir, digest(v['case']) + '.json')
            rec = {'property': pid, 'case': v['case'], 'key': v['key'], 'msg': v['msg'], 'env': v.get('env', {}),
                   'tier': tier, 'seed': seed}
            with open(path, 'w') as f:
                json.dump(rec, f, indent=1)
            h = v.get('env', {}).get('hashseed', 0)
            outp = os.path.join(sd, 'confirm.json')
            if os.path.exists(outp):
                os.remove(outp)
            cp = subprocess.run([sys.executable, '-m', 'mc.run', pid, '--confirm', path, '--out', outp],
                                cwd=VERIF, env=_env(h), capture_output=True, text=True)
            ok = False
            if cp.returncode == 0 and os.path.exists(outp):
                ok = len(json.load(open(outp))['violations']) > 0
            if not ok:
                # keep looking: a defect that makes answers depend on the call history of a worker process shows up
                # both as reproducible violations (history cases) and as ones that a fresh process cannot reproduce
                unconfirmed.append((v, path, cp.stdout[-800:] + cp.stderr[-800:]))
                seen_keys.discard(kd)
                continue
            reported.append((v, path))
        if unconfirmed and not reported:
            v, path, out = unconfirmed[0]
            print('HARNESS-ERROR %d violation(s) did not reproduce on replay in a fresh interpreter (nondeterminism?) and none did' % len(unconfirmed))
            print('case:', path)
            print(v['msg'][:1500])
            print(out)
            return 2
        for v, path, out in unconfirmed[:5]:
            print('UNCONFIRMED (not reproduced in a fresh interpreter, not reported): %s' % v['msg'][:300])

        wall = time.time() - t0
        for i, vs in known_hits.items():
            f = findings[i]
            print('KNOWN-FINDING: property=%s %s (id=%s, %d occurrence(s) this run)' % (pid, f.get('what', ''), f.get('id', i), len(vs)))
        for v, path in reported:
            print('VIOLATION property=%s replay=%s' % (pid, path))
            print('  key=%s' % json.dumps(v['key']))
            print('  ' + v['msg'].replace('\n', '\n  ')[:1200])
        n_unknown = len(unknown)

        if write_evidence:
            cov = {
                'evaluations': total.evals,
                'distinct_nontrivial': len(total.digests),
                'rule': mod.RULE,
                'samples': total.samples[:4],
                'exhaustive': not total.caps,
                'outcomes': dict(total.outcomes.most_common(40)),
                'distinct_outcomes': len(total.outcomes),
                'bounds': mod.bounds(tier) if hasattr(mod, 'bounds') else {},
                'caps_hit': total.caps,
                'maxima': total.maxima,
                'counters': dict(total.counters),
                'jobs': njobs,
                'job_seconds_total': round(cpu_s, 1),
                'slowest_jobs': sorted(slowest, reverse=True)[:3],
                'hashseeds': hs,
                'repo': repo_state(),
                'known_finding_occurrences': sum(len(v) for v in known_hits.values()),
                'violations_total_including_unreported': total.nviol,
            }
            if mod.LEVEL == 'model_checking':
                cov['states'] = total.states
                cov['transitions'] = total.transitions
                cov['traces_validated_against_impl'] = total.traces
            ev = {
                'property_id': pid, 'tier': tier, 'seed': seed, 'level': mod.LEVEL,
                'coverage': cov, 'assumptions': list(getattr(mod, 'ASSUMPTIONS', [])),
                'wall_s': round(wall, 2), 'violations': n_unknown,
            }
            os.makedirs(os.path.join(VERIF, 'evidence'), exist_ok=True)
            with open(os.path.join(VERIF, 'evidence', '%s.json' % pid), 'w') as f:
                json.dump(ev, f, indent=1, sort_keys=True)
        print('%s %s: jobs=%d evaluations=%d distinct=%d states=%d transitions=%d outcomes=%d violations=%d known=%d wall=%.1fs' % (
            pid, tier, njobs, total.evals, len(total.digests), total.states, total.transitions,
            len(total.outcomes), n_unknown, sum(len(v) for v in known_hits.values()), wall))
        return 1 if n_unknown else 0
    finally:
        shutil.rmtree(sd, ignore_errors=True)
