"""Loads /repo/mechanisms/*.py afresh from the working tree under private module names
(two files have a '+' in their name) with stub packages for the two dependencies that
are not installed here (autodp, hdmm)."""
import importlib.util
import os
import sys
import types

from . import REPO

STUB_SIGMA = 1.2345
_CACHE = {}


def install_stubs():
    if 'autodp' not in sys.modules:
        autodp = types.ModuleType('autodp')
        pc = types.ModuleType('autodp.privacy_calibrator')

        def ana_gaussian_mech(epsilon, delta, **kw):
            ana_gaussian_mech.calls.append((epsilon, delta))
            return {'sigma': STUB_SIGMA}
        ana_gaussian_mech.calls = []
        pc.ana_gaussian_mech = ana_gaussian_mech
        autodp.privacy_calibrator = pc
        sys.modules['autodp'] = autodp
        sys.modules['autodp.privacy_calibrator'] = pc
    if 'hdmm' not in sys.modules:
        from scipy import sparse
        hdmm = types.ModuleType('hdmm')
        hm = types.ModuleType('hdmm.matrix')
        hm.Identity = lambda n: sparse.eye(n, format='csr')
        hdmm.matrix = hm
        sys.modules['hdmm'] = hdmm
        sys.modules['hdmm.matrix'] = hm
    import matplotlib
    matplotlib.use('Agg')


def load(name):
    """name in {'mst','aim','mwem','adaptive_grid','mechanism','cdp2adp'}"""
    if name in _CACHE:
        return _CACHE[name]
    install_stubs()
    fname = {'mwem': 'mwem+pgm.py'}.get(name, name + '.py')
    path = os.path.join(REPO, 'mechanisms', fname)
    if name in ('mechanism', 'cdp2adp'):
        # imported by the others as mechanisms.<name>; REPO is on sys.path (namespace package)
        mod = importlib.import_module('mechanisms.' + name)
        real = os.path.realpath(mod.__file__)
        if real != os.path.realpath(path):
            raise RuntimeError('mechanisms.%s imported from %s, expected %s' % (name, real, path))
    else:
        spec = importlib.util.spec_from_file_location('verif_mech_' + name, path)
        mod = importlib.util.module_from_spec(spec)
        spec.loader.exec_module(mod)
    # seam: cdp_rho is a pure function of (eps, delta) costing 0.2 s (10^6 loop iterations); memoise it per process
    if name not in ('cdp2adp',) and hasattr(mod, 'cdp_rho') and not hasattr(mod.cdp_rho, 'cache_info'):
        import functools
        mod.cdp_rho = functools.lru_cache(maxsize=None)(mod.cdp_rho)
    mm = sys.modules.get('mechanisms.mechanism')
    if mm is not None and hasattr(mm, 'cdp_rho') and not hasattr(mm.cdp_rho, 'cache_info'):
        import functools
        mm.cdp_rho = functools.lru_cache(maxsize=None)(mm.cdp_rho)
    _CACHE[name] = mod
    return mod
