"""Reference models.  Nothing here uses mbi.Factor arithmetic: tables are plain
numpy arrays addressed by attribute *name* through explicit index arrays."""
import itertools
import math

import numpy as np

LETTERS = 'abcdefghijklmnopqrstuvwxyz'


# ---------------------------------------------------------------------------
# explicit joint distribution
# ---------------------------------------------------------------------------
def explicit_logjoint(attrs, shape, pots):
    """attrs/shape: the domain.  pots: iterable of (clique_attrs, ndarray whose axes
    follow clique_attrs) in log space.  Returns the unnormalised log joint in
    domain order (may contain -inf)."""
    attrs = list(attrs)
    idx = np.indices(tuple(shape)) if len(shape) else None
    logp = np.zeros(tuple(shape))
    for cl, arr in pots:
        arr = np.asarray(arr, dtype=float)
        if len(cl) == 0:
            logp = logp + float(arr)
            continue
        sel = tuple(idx[attrs.index(a)] for a in cl)
        with np.errstate(invalid='ignore'):
            logp = logp + arr.reshape([shape[attrs.index(a)] for a in cl])[sel]
    return logp


def normalise(logp, total):
    m = np.max(logp)
    if not np.isfinite(m):
        return None  # precondition: at least one cell with finite potential sum
    p = np.exp(logp - m)
    return p * (total / p.sum())


def explicit_joint(attrs, shape, pots, total):
    return normalise(explicit_logjoint(attrs, shape, pots), total)


def marginal(joint, attrs, target):
    """marginal of `joint` (axes = attrs) laid out in the order `target`"""
    attrs = list(attrs)
    src = ''.join(LETTERS[i] for i in range(len(attrs)))
    dst = ''.join(LETTERS[attrs.index(a)] for a in target)
    return np.einsum('%s->%s' % (src, dst), joint)


def marginal_matrix(attrs, shape, target):
    """dense 0/1 matrix M with M @ joint.flatten() == marginal(joint, target).flatten()"""
    attrs = list(attrs)
    n = int(np.prod(shape)) if len(shape) else 1
    tshape = [shape[attrs.index(a)] for a in target]
    m = int(np.prod(tshape)) if tshape else 1
    M = np.zeros((m, n))
    for j, cell in enumerate(itertools.product(*[range(s) for s in shape])):
        sub = tuple(cell[attrs.index(a)] for a in target)
        i = int(np.ravel_multi_index(sub, tshape)) if tshape else 0
        M[i, j] = 1.0
    return M


def close(a, b, rtol, atol):
    a = np.asarray(a, dtype=float)
    b = np.asarray(b, dtype=float)
    if a.shape != b.shape:
        return False
    if not (np.all(np.isfinite(a)) and np.all(np.isfinite(b))):
        return False
    return bool(np.all(np.abs(a - b) <= atol + rtol * np.abs(b)))


def maxdiff(a, b):
    a = np.asarray(a, dtype=float)
    b = np.asarray(b, dtype=float)
    if a.shape != b.shape:
        return float('inf')
    d = np.abs(a - b)
    if d.size == 0:
        return 0.0
    if np.any(np.isnan(d)):
        return float('inf')
    return float(d.max())


# ---------------------------------------------------------------------------
# certified reference optimum of  min 0.5*||A p - b||^2  s.t. p >= 0, sum p = T
# ---------------------------------------------------------------------------
def project_simplex(v, T):
    """Euclidean projection on {p >= 0, sum p = T} (sort based, exact)"""
    n = v.size
    u = np.sort(v)[::-1]
    css = np.cumsum(u) - T
    ks = np.arange(1, n + 1)
    cond = u - css / ks > 0
    k = ks[cond][-1]
    tau = css[cond][-1] / k
    return np.maximum(v - tau, 0.0)


def fista_simplex(A, b, T, iters=20000, tol=1e-13):
    """returns (p, f(p), fw_gap).  fw_gap >= f(p) - f*  (Frank-Wolfe duality gap)."""
    n = A.shape[1]
    AtA = A.T @ A
    Atb = A.T @ b
    L = max(np.linalg.eigvalsh(AtA).max(), 1e-12)
    f = lambda p: 0.5 * float(np.sum((A @ p - b) ** 2))
    x = np.ones(n) * T / n
    y = x.copy()
    t = 1.0
    best = None
    for k in range(iters):
        g = AtA @ y - Atb
        xn = project_simplex(y - g / L, T)
        tn = (1 + math.sqrt(1 + 4 * t * t)) / 2
        # gradient restart keeps the method monotone enough for a tight certificate
        if np.dot(y - xn, xn - x) > 0:
            y = xn.copy()
            tn = 1.0
        else:
            y = xn + ((t - 1) / tn) * (xn - x)
        x, t = xn, tn
        if k % 50 == 49:
            gx = AtA @ x - Atb
            gap = float(gx @ x - T * gx.min())
            if best is None or gap < best[2]:
                best = (x.copy(), f(x), gap)
            if gap <= tol * max(1.0, abs(best[1])):
                break
    gx = AtA @ x - Atb
    gap = float(gx @ x - T * gx.min())
    if best is None or gap < best[2]:
        best = (x.copy(), f(x), gap)
    return best


# ---------------------------------------------------------------------------
# hypergraph classification
# ---------------------------------------------------------------------------
def gyo_acyclic(cliques):
    """GYO reduction: True iff the hypergraph is alpha-acyclic (<=> a junction tree
    over exactly these maximal hyperedges exists, i.e. running intersection holds)."""
    edges = [set(c) for c in cliques]
    changed = True
    while changed:
        changed = False
        # remove vertices that occur in exactly one edge
        for e in edges:
            for v in list(e):
                if sum(1 for f in edges if v in f) == 1:
                    e.discard(v)
                    changed = True
        # remove edges contained in another edge (or empty)
        for i, e in enumerate(edges):
            if len(e) == 0 or any(j != i and e <= f for j, f in enumerate(edges)):
                edges.pop(i)
                changed = True
                break
    return len(edges) == 0


def factor_graph_is_forest(attrs, cliques):
    """bipartite variable/factor graph has no cycle (union-find)"""
    parent = {}

    def find(x):
        while parent.setdefault(x, x) != x:
            parent[x] = parent[parent[x]]
            x = parent[x]
        return x
    for i, cl in enumerate(cliques):
        for a in cl:
            ra, rb = find(('v', a)), find(('f', i))
            if ra == rb:
                return False
            parent[ra] = rb
    return True


# ---------------------------------------------------------------------------
# privacy accounting (independent of mechanisms/cdp2adp.py)
# ---------------------------------------------------------------------------
def renyi_delta(rho, eps, alpha):
    """delta bound of Canonne-Kamath-Steinke Prop. 12 for a given order alpha > 1 (log-space)"""
    return math.exp((alpha - 1) * (alpha * rho - eps) + alpha * math.log1p(-1 / alpha)) / (alpha - 1.0)


def _log_renyi_delta(rho, eps, alpha):
    return (alpha - 1) * (alpha * rho - eps) + alpha * math.log1p(-1 / alpha) - math.log(alpha - 1.0)


def delta_ref(rho, eps, amin=1.0 + 1e-9):
    """min over alpha in (amin, inf) of the Renyi-order bound: coarse log grid + golden section.
    The log of the bound is convex in alpha, so a bracket around the grid minimum is valid."""
    if rho <= 0:
        return 0.0
    hi = max((eps + 1) / (2 * rho) + 2, 4.0) * 4
    grid = np.exp(np.linspace(math.log(amin - 1.0), math.log(hi - 1.0), 400)) + 1.0
    vals = [_log_renyi_delta(rho, eps, a) for a in grid]
    i = int(np.argmin(vals))
    lo_a = grid[max(i - 1, 0)]
    hi_a = grid[min(i + 1, len(grid) - 1)]
    gr = (math.sqrt(5) - 1) / 2
    a, b = lo_a, hi_a
    c = b - gr * (b - a)
    d = a + gr * (b - a)
    fc, fd = _log_renyi_delta(rho, eps, c), _log_renyi_delta(rho, eps, d)
    for _ in range(200):
        if fc < fd:
            b, d, fd = d, c, fc
            c = b - gr * (b - a)
            fc = _log_renyi_delta(rho, eps, c)
        else:
            a, c, fc = c, d, fd
            d = a + gr * (b - a)
            fd = _log_renyi_delta(rho, eps, d)
    best = min(fc, fd, vals[i])
    return min(1.0, math.exp(best))


def gaussian_delta(rho, eps):
    """exact delta(eps) of the Gaussian mechanism with rho = Delta^2/(2 sigma^2) (Balle-Wang)"""
    from scipy.stats import norm
    mu = math.sqrt(2 * rho)
    return float(norm.cdf(-eps / mu + mu / 2) - math.exp(eps) * norm.cdf(-eps / mu - mu / 2))


def exp_mech_probs(q, eps, sens, coef=0.5, base=None):
    """definition of the exponential mechanism, evaluated with an exact max shift"""
    q = np.asarray(q, dtype=float)
    s = coef * eps / sens * q
    if base is not None:
        with np.errstate(divide='ignore'):
            s = s + np.log(np.asarray(base, dtype=float))   # base measure 0 => probability exactly 0
    s = s - s.max()
    w = np.exp(s)
    return w / w.sum()
