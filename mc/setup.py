"""MANIFEST.setup_cmd: nothing to build (pure Python); verify the environment."""
import json
import os
import sys

from . import VERIF, REPO, bind_repo


def main():
    mbi = bind_repo()
    import numpy, scipy, pandas, networkx  # noqa
    import disjoint_set  # noqa
    for f in ('mst.py', 'aim.py', 'mwem+pgm.py', 'adaptive_grid.py', 'mechanism.py', 'cdp2adp.py'):
        assert os.path.exists(os.path.join(REPO, 'mechanisms', f)), f
    json.load(open(os.path.join(VERIF, 'MANIFEST.json')))
    if os.path.exists(os.path.join(VERIF, 'known_findings.json')):
        json.load(open(os.path.join(VERIF, 'known_findings.json')))
    os.makedirs(os.path.join(VERIF, 'evidence'), exist_ok=True)
    os.makedirs(os.path.join(VERIF, '.scratch'), exist_ok=True)
    print('setup ok: mbi from', os.path.dirname(mbi.__file__), 'python', sys.version.split()[0],
          'numpy', numpy.__version__, 'scipy', scipy.__version__, 'pandas', pandas.__version__, 'networkx', networkx.__version__)


if __name__ == '__main__':
    main()
