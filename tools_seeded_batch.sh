#!/bin/bash
# usage: tools_seeded_batch.sh C01:A C01:B ...   (reads /tmp/seed/<P>/<V>.patch etc., keeps results under /verif/seeded/<P>-<V>)
cd /verif
for x in "$@"; do p=${x%%:*}; v=${x##*:}
 /venv/bin/python tools_seeded.py eval $p-$v $p /tmp/seed/$p/$v.patch /tmp/seed/$p/${v}_demo.py --notes /tmp/seed/$p/${v}_notes.md --keep ${TIER:+--tier $TIER} ${CHECKS:+--checks $CHECKS} 2>/dev/null | /venv/bin/python -c "
import sys,json
txt=sys.stdin.read(); d=json.loads(txt[txt.index('{'):])
print(d['name'],'applies',d['applies'],'tests',d.get('tests_pass'),'demo+',d.get('demo_fails_with_change'),'demo-',d.get('demo_passes_without'), {k:(v['detected'],v['exit'],v['wall_s']) for k,v in d.get('checks',{}).items()})
for k,v in d.get('checks',{}).items(): print('   ',(v['first_violation'] or v['summary'])[:300])
"; done
