#!/venv/bin/python
"""Evaluate a seeded change against the checks.

  tools_seeded.py eval <name> <property> <patch> <demo.py> [--checks C01,C08] [--tier quick|thorough] [--keep]
      1. fresh scratch worktree of /repo HEAD under /tmp/evalwt/<name>, `git apply <patch>`
      2. repository test suite on the worktree (must still pass the 31 baseline tests)
      3. demo on the changed worktree (must exit 1) and on clean /repo (must exit 0)
      4. the named checks (default: the property's own) with VERIF_REPO=<worktree>
      5. remove the worktree
  Prints a JSON summary; with --keep writes /verif/seeded/<name>/{patch.diff, demo.py, meta.json}.
"""
import argparse
import json
import os
import shutil
import subprocess
import sys
import time

VERIF = os.path.dirname(os.path.abspath(__file__))


def sh(cmd, env=None, cwd=None, timeout=7200):
    e = dict(os.environ)
    if env:
        e.update(env)
    t = time.time()
    p = subprocess.run(cmd, shell=True, cwd=cwd, env=e, capture_output=True, text=True, timeout=timeout)
    return p.returncode, p.stdout + p.stderr, time.time() - t


def main():
    ap = argparse.ArgumentParser()
    ap.add_argument('cmd')
    ap.add_argument('name')
    ap.add_argument('prop')
    ap.add_argument('patch')
    ap.add_argument('demo')
    ap.add_argument('--checks', default=None)
    ap.add_argument('--tier', default='quick')
    ap.add_argument('--keep', action='store_true')
    ap.add_argument('--notes', default=None)
    a = ap.parse_args()
    wt = '/tmp/evalwt/' + a.name
    os.makedirs('/tmp/evalwt', exist_ok=True)
    sh('git -C /repo worktree remove --force %s' % wt)
    rc, out, _ = sh('git -C /repo worktree add --detach %s HEAD' % wt)
    res = {'name': a.name, 'property': a.prop, 'repo_head': sh('git -C /repo rev-parse --short HEAD')[1].strip()}
    try:
        rc, out, _ = sh('git apply %s' % os.path.abspath(a.patch), cwd=wt)
        res['applies'] = rc == 0
        if rc != 0:
            res['apply_error'] = out[-500:]
            print(json.dumps(res, indent=1))
            return 1
        rc, out, _ = sh('%s/tools_baseline.sh %s' % (VERIF, wt))
        res['tests_pass'] = rc == 0
        res['tests_tail'] = [l for l in out.splitlines() if 'passed' in l][-2:]
        rc1, out1, _ = sh('/venv/bin/python %s' % os.path.abspath(a.demo), env={'PGM_ROOT': wt, 'PYTHONHASHSEED': '0'})
        rc0, out0, _ = sh('/venv/bin/python %s' % os.path.abspath(a.demo), env={'PGM_ROOT': '/repo', 'PYTHONHASHSEED': '0'})
        res['demo_fails_with_change'] = rc1 != 0
        res['demo_passes_without'] = rc0 == 0
        res['demo_output_with_change'] = [l for l in out1.splitlines() if 'conda' not in l][-6:]
        checks = (a.checks or a.prop).split(',')
        res['checks'] = {}
        for c in checks:
            rc, out, wall = sh('/venv/bin/python -m mc.run %s --tier %s --no-evidence' % (c, a.tier), env={'VERIF_REPO': wt}, cwd=VERIF)
            lines = [l for l in out.splitlines() if 'conda' not in l]
            res['checks'][c] = {'tier': a.tier, 'exit': rc, 'detected': rc == 1, 'wall_s': round(wall, 1),
                                'first_violation': next((lines[i + 1].strip() + ' | ' + lines[i + 2].strip()[:300] for i, l in enumerate(lines)
                                                         if l.startswith('VIOLATION') and i + 2 < len(lines)), None),
                                'summary': lines[-1] if lines else ''}
        if a.keep:
            d = os.path.join(VERIF, 'seeded', a.name)
            os.makedirs(d, exist_ok=True)
            shutil.copy(a.patch, os.path.join(d, 'patch.diff'))
            shutil.copy(a.demo, os.path.join(d, 'demo.py'))
            if a.notes and os.path.exists(a.notes):
                shutil.copy(a.notes, os.path.join(d, 'notes.md'))
            meta = {'breaks_property': a.prop, 'source': 'independent sub-agent given only the property text and a scratch worktree',
                    'needs_to_manifest': open(a.notes).read()[:1500] if a.notes and os.path.exists(a.notes) else '',
                    'what_was_run': ['git apply in a scratch worktree of /repo@%s' % res['repo_head'], 'tools_baseline.sh <worktree> (31 baseline tests)',
                                     'demo.py with PGM_ROOT=<worktree> and with PGM_ROOT=/repo',
                                     'VERIF_REPO=<worktree> python -m mc.run <check> --tier %s' % a.tier],
                    'result': res}
            prev = os.path.join(d, 'meta.json')
            if os.path.exists(prev):
                old = json.load(open(prev))
                for k, v in old.get('result', {}).get('checks', {}).items():
                    meta['result']['checks'].setdefault(k + ('' if v.get('tier') == a.tier else ':' + v.get('tier', '')), v)
            json.dump(meta, open(prev, 'w'), indent=1)
        print(json.dumps(res, indent=1))
    finally:
        sh('git -C /repo worktree remove --force %s' % wt)
    return 0


if __name__ == '__main__':
    sys.exit(main())
