#!/bin/bash
# runs the repository's pinned test suite (guard off) against a repo path and compares with BASELINE.json's stable_pass list
REPO_DIR=${1:-/repo}
OUT=$(mktemp -d /verif/.scratch/baseline-XXXX)
cd $REPO_DIR && env -u PRIVATE_PGM_VERIF PYTHONPATH=$REPO_DIR/src /venv/bin/python -m pytest -ra -q -p no:cacheprovider --timeout=900 --continue-on-collection-errors --junitxml=$OUT/j.xml > $OUT/log 2>&1
/venv/bin/python - $OUT/j.xml <<'PY'
import sys, json, xml.etree.ElementTree as ET
base=json.load(open('/root/.vp/BASELINE.json'))
t=ET.parse(sys.argv[1]); ok=set()
for tc in t.iter('testcase'):
    name=tc.get('classname')+'::'+tc.get('name')
    if not any(c.tag in('failure','error','skipped') for c in tc): ok.add(name)
missing=[s for s in base['stable_pass'] if s not in ok]
print('passed',len(ok),'baseline stable',len(base['stable_pass']),'missing',missing)
sys.exit(1 if missing else 0)
PY
rc=$?
tail -3 $OUT/log
rm -rf $OUT
exit $rc
