#!/venv/bin/python
"""Own (non-independent) mutants from DESIGN.md section 8: one-line edits applied in a scratch worktree, baseline tests run,
named check run with VERIF_REPO.  Results -> /verif/seeded/own/RESULTS.md.   usage: tools_own_mutants.py [name-filter]"""
import json
import os
import subprocess
import sys

VERIF = os.path.dirname(os.path.abspath(__file__))
WT = '/tmp/evalwt/own'

M = [
    # (name, check, file, old, new)
    ('c01-skip-division', 'C01', 'src/mbi/graphical_model.py', "                tau = beliefs[i] - messages[(j,i)]", "                tau = beliefs[i]"),
    ('c01-wrong-logZ-clique', 'C01', 'src/mbi/graphical_model.py', "        logZ = beliefs[cl].logsumexp()\n        for cl in self.cliques:", "        logZ = potentials[cl].logsumexp()\n        for cl in self.cliques:"),
    ('c02-many-marginals-sum', 'C02', 'src/mbi/graphical_model.py', "                S = set(Cl) - set(Ci) - set(Cj)", "                S = set(Cl) - set(Ci)"),
    ('c02-datavector-no-expand', 'C02', 'src/mbi/graphical_model.py', "        return ans.expand(self.domain).datavector(flatten) * wgt * self.total", "        return ans.datavector(flatten) * wgt * self.total"),
    ('c03-gradient-c-once', 'C03', 'src/mbi/inference.py', "                    grad = c*(Q.T @ diff)", "                    grad = (Q.T @ diff)"),
    ('c03-md-accept-any', 'C03', 'src/mbi/inference.py', "        nols = stepsize is not None", "        nols = True"),
    ('c04-loss-without-c', 'C04', 'src/mbi/inference.py', "                diff = c*(Q @ x - y)", "                diff = (Q @ x - y)"),
    ('c04-project-canonical', 'C04', 'src/mbi/inference.py', "                mu2 = mu.project(proj)", "                mu2 = mu.project(mu.domain.canonical(proj))"),
    ('c05-mst-sigma', 'C05', 'mechanisms/mst.py', "    sigma = np.sqrt(3/(2*rho))", "    sigma = np.sqrt(2/(2*rho))"),
    ('c05-aim-selection-not-charged', 'C05', 'mechanisms/aim.py', "            rho_used += 1.0/8 * epsilon**2 + 0.5/sigma**2", "            rho_used += 0.5/sigma**2"),
    ('c05-mwem-sensitivity', 'C05', 'mechanisms/mwem+pgm.py', "        marginal_sensitivity = np.sqrt(2) if bounded else 1.0", "        marginal_sensitivity = 1.0"),
    ('c05-adagrid-coef', 'C05', 'mechanisms/adaptive_grid.py', "        coef = 1.0 / np.sqrt(len(children))", "        coef = 1.0"),
    ('c06-mst-threshold-true-counts', 'C06', 'mechanisms/mst.py', "        x = data.project(proj).datavector()\n        y = x + np.random.normal(loc=0, scale=sigma/wgt, size=x.size)", "        x = data.project(proj).datavector()\n        y = x + np.random.normal(loc=0, scale=sigma/wgt, size=x.size)\n        y = np.where(x == 0, 0.0, y)"),
    ('c06-mwem-total-records', 'C06', 'mechanisms/mwem+pgm.py', "    total = data.records if bounded else None", "    total = data.records"),
    ('c07-flip-cdp-rho', 'C07', 'mechanisms/cdp2adp.py', "        if cdp_delta(rho,eps)<=delta:\n            rhomin=rho", "        if cdp_delta(rho,eps)<=2*delta:\n            rhomin=rho"),
    ('c07-sign', 'C07', 'mechanisms/cdp2adp.py', "    delta = math.exp((alpha-1)*(alpha*rho-eps)+alpha*math.log1p(-1/alpha)) / (alpha-1.0)", "    delta = math.exp((alpha-1)*(alpha*rho-eps)+alpha*math.log1p(-1/alpha)) / alpha"),
    ('c08-ig-skip-mle', 'C08', 'src/mbi/inference.py', "        model.marginals = x\n        model.potentials = model.mle(x) ", "        model.marginals = x\n        model.potentials = theta"),
    ('c09-no-floor', 'C09', 'src/mbi/inference.py', "                total = max(1, estimate)", "                total = estimate"),
    ('c09-weights-by-sigma', 'C09', 'src/mbi/inference.py', "                    variances = np.append(variances, noise**2 * np.dot(v, v))", "                    variances = np.append(variances, noise * np.dot(v, v))"),
    ('c09-loose-allclose', 'C09', 'src/mbi/inference.py', "                if np.allclose(Q.T.dot(v), o):", "                if np.allclose(Q.T.dot(v), o, atol=1.5):"),
    ('c10-combine-skips-subcliques', 'C10', 'src/mbi/clique_vector.py', "                if set(cl) <= set(cl2):", "                if set(cl) == set(cl2):"),
    ('c10-active-zero-not-inf', 'C10', 'src/mbi/factor.py', "        vals[idx] = -np.inf", "        vals[idx] = -1e3"),
    ('c11-int-round', 'C11', 'src/mbi/graphical_model.py', "        total = int(self.total) if rows is None else rows", "        total = int(round(self.total)) if rows is None else rows"),
    ('c11-no-extra', 'C11', 'src/mbi/graphical_model.py', "            if extra > 0:", "            if extra > 1:"),
    ('c12-no-fillin-feed', 'C12', 'src/mbi/junction_tree.py', "            G.add_edges_from(tmp)\n", "            pass\n"),
    ('c12-mp-order-cond', 'C12', 'src/mbi/junction_tree.py', "                if m1[1] == m2[0] and m1[0] != m2[1]:", "                if m1[1] == m2[0] and m1[0] != m2[1] and len(m1[0]) > 1:"),
    ('c13-fix-measurements-inplace', 'C13', 'src/mbi/inference.py', "            assert np.isscalar(noise), 'noise must be a real value, given ' + str(noise)", "            assert np.isscalar(noise), 'noise must be a real value, given ' + str(noise)\n            y /= 1.0; y -= 0.0; y[...] = y * 1.0000001"),
    ('c13-combine-regardless', 'C13', 'src/mbi/inference.py', "        if self.warm_start and hasattr(self, 'model'):", "        if hasattr(self, 'model'):"),
    ('c14-project-canonical', 'C14', 'src/mbi/factor.py', "        return ans.transpose(attrs)", "        return ans.transpose(self.domain.canonical(attrs))"),
    ('c14-iadd-position', 'C14', 'src/mbi/factor.py', "        factor2 = other.expand(self.domain)\n        self.values += factor2.values\n        return self ", "        factor2 = other.expand(self.domain) if len(other.domain) < len(self.domain) else other\n        self.values += factor2.values.reshape(self.values.shape)\n        return self "),
    ('c15-project-drops-weights', 'C15', 'src/mbi/dataset.py', "        return Dataset(data, domain, self.weights)", "        return Dataset(data, domain)"),
    ('c15-merge-dups', 'C15', 'src/mbi/domain.py', "        extra = other.marginalize(self.attrs)", "        extra = other.marginalize(self.attrs[:1])"),
    ('c16-no-normalise', 'C16', 'src/mbi/region_graph.py', "            belief += np.log(self.total) - belief.logsumexp()\r\n            marginals[r] = belief.exp()", "            belief += np.log(self.total) - belief.logsumexp() + 1e-6\r\n            marginals[r] = belief.exp()"),
    ('c16-lbp-precedence', 'C16', 'src/mbi/factor_graph.py', "                    mu_n[v][f] = pre - mu_f[f][v]", "                    mu_n[v][f] = pre - 0.5*mu_f[f][v]"),
    ('c17-upward-no-sub', 'C17', 'src/mbi/region_graph.py', "+ sum(messages[p1,r] for p1 in self.parents[r])) - messages[p,r]\r\n", "+ sum(messages[p1,r] for p1 in self.parents[r])) - 0.9*messages[p,r]\r\n"),
    ('c18-no-post-iterations', 'C18', 'src/mbi/local_inference.py', "            if model.primal_feasibility(mu) < 1.0:", "            if True:"),
    ('c19-not-rescaled', 'C19', 'src/mbi/public_inference.py', "        logQ += np.log(total) - logsumexp(logQ)", "        logQ += np.log(total + 1e-3) - logsumexp(logQ)"),
    ('c20-coefficient', 'C20', 'mechanisms/mechanism.py', "            p = softmax(0.5*epsilon/sensitivity*q)", "            p = softmax(1.0*epsilon/sensitivity*q)"),
    ('c20-base-outside-log', 'C20', 'mechanisms/mechanism.py', "            p = softmax(0.5*epsilon/sensitivity*q + base_measure)", "            p = softmax(0.5*epsilon/sensitivity*(q + base_measure))"),
    ('c20-laplace-scale', 'C20', 'mechanisms/mechanism.py', "        return l1_sensitivity / epsilon", "        return l1_sensitivity / (epsilon + 1e-9)"),
]


def sh(cmd, env=None, cwd=None):
    e = dict(os.environ)
    if env:
        e.update(env)
    p = subprocess.run(cmd, shell=True, cwd=cwd, env=e, capture_output=True, text=True)
    return p.returncode, p.stdout + p.stderr


def main():
    flt = sys.argv[1] if len(sys.argv) > 1 else ''
    rows = []
    os.makedirs('/tmp/evalwt', exist_ok=True)
    for name, check, path, old, new in M:
        if flt and flt not in name:
            continue
        sh('git -C /repo worktree remove --force %s' % WT)
        sh('git -C /repo worktree add --detach %s HEAD' % WT)
        f = os.path.join(WT, path)
        s = open(f, newline='').read()
        if s.count(old) != 1:
            rows.append((name, check, 'edit site not found (%d matches)' % s.count(old), '', ''))
            print(rows[-1])
            continue
        open(f, 'w', newline='').write(s.replace(old, new))
        rc_t, out_t = sh('%s/tools_baseline.sh %s' % (VERIF, WT))
        rc, out = sh('/venv/bin/python -m mc.run %s --tier quick --no-evidence' % check, env={'VERIF_REPO': WT}, cwd=VERIF)
        lines = [l for l in out.splitlines() if 'conda' not in l]
        first = next((lines[i + 2].strip()[:160] for i, l in enumerate(lines) if l.startswith('VIOLATION') and i + 2 < len(lines)), '')
        rows.append((name, check, 'pass' if rc_t == 0 else 'FAIL', {0: 'MISSED', 1: 'detected', 2: 'harness error'}.get(rc, str(rc)), first))
        print(rows[-1], flush=True)
    sh('git -C /repo worktree remove --force %s' % WT)
    os.makedirs(os.path.join(VERIF, 'seeded', 'own'), exist_ok=True)
    with open(os.path.join(VERIF, 'seeded', 'own', 'RESULTS.md'), 'w') as fh:
        fh.write('Own one-line mutants (not independent of the checks; DESIGN.md section 8). Each row: edit applied in a scratch worktree of /repo HEAD, '
                 'baseline suite, then the named quick check with VERIF_REPO.\n\n| mutant | check | baseline tests | result | first violation |\n|---|---|---|---|---|\n')
        for r in rows:
            fh.write('| %s | %s | %s | %s | %s |\n' % tuple(str(x).replace('|', '/') for x in r))
    json.dump([{'name': n, 'check': c, 'file': p, 'old': o, 'new': w} for n, c, p, o, w in M], open(os.path.join(VERIF, 'seeded', 'own', 'mutants.json'), 'w'), indent=1)


if __name__ == '__main__':
    main()
