#!/bin/bash
# usage: tools_try.sh <patch> <check-id> [tier]   -- applies a patch in the scratch worktree /tmp/wt (reset to /repo HEAD) and runs one check against it
WT=/tmp/wt
git -C /repo worktree list | grep -q "$WT " || git -C /repo worktree add --detach $WT HEAD >/dev/null 2>&1
git -C $WT checkout -q --detach $(git -C /repo rev-parse HEAD) && git -C $WT checkout -q -- . && git -C $WT clean -fdq
git -C $WT apply "$1" || exit 3
cd /verif && VERIF_REPO=$WT /venv/bin/python -m mc.run $2 --tier ${3:-quick} --no-evidence 2>&1 | grep -v conda | cut -c1-400 | tail -${LINES_OUT:-6}
git -C $WT checkout -q -- . ; git -C $WT clean -fdq
